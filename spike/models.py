"""Spike: symbolic stand-ins for pyquaternion.Quaternion (yaw-only) and shapely Polygon (convex)."""
import math
from fractions import Fraction

import numpy as _np
import z3

import symx
from symx import SBool, SReal


class LazyReal(SReal):
    """SReal whose z3 term is produced on first observation."""

    def __init__(self, thunk):
        self._thunk = thunk
        self._e = None

    @property
    def e(self):
        if self._e is None:
            v = self._thunk()
            self._e = symx._lift(v)
        return self._e

    def _bin(self, o, f):
        return LazyReal(lambda: f(self.e, symx._lift(o)))


class YawQuat:
    """Rotation about +z by `yaw`; c=cos(yaw), s=sin(yaw) given exactly; sign = quaternion double-cover sign."""

    def __init__(self, c=1, s=0, yaw=0.0, sign=1):
        self.c, self.s, self.yaw, self.sign = c, s, yaw, sign

    def rotate(self, v):
        x, y, z = v[0], v[1], v[2]
        out = _np.empty(3, dtype=object)
        out[0] = self.c * x - self.s * y
        out[1] = self.s * x + self.c * y
        out[2] = z
        return out

    @property
    def rotation_matrix(self):
        m = _np.zeros((3, 3), dtype=object)
        m[0, 0], m[0, 1], m[1, 0], m[1, 1], m[2, 2] = self.c, -self.s, self.s, self.c, 1
        return m

    @property
    def yaw_pitch_roll(self):
        return self.yaw, 0.0, 0.0

    def __eq__(self, o):
        return isinstance(o, YawQuat) and (self.c, self.s, self.sign) == (o.c, o.s, o.sign)

    def __deepcopy__(self, memo):
        return self


class _Ext:
    def __init__(self, coords):
        self.coords = coords


class ConvexPolygon:
    """Model of shapely Polygon for convex CCW/CW rings given as closed coordinate list."""

    def __init__(self, coords):
        pts = [tuple(p) for p in coords]
        if len(pts) > 1 and all(_same(a, b) for a, b in zip(pts[0], pts[-1])):
            ring = pts
        else:
            ring = pts + pts[:1]
        self.exterior = _Ext(ring)

    def _open(self):
        return self.exterior.coords[:-1]

    @property
    def area(self):
        pts = self._open()

        def thunk():
            s = 0
            n = len(pts)
            for i in range(n):
                x1, y1 = pts[i][0], pts[i][1]
                x2, y2 = pts[(i + 1) % n][0], pts[(i + 1) % n][1]
                s = s + (x1 * y2 - x2 * y1)
            return abs(s) / 2 if not isinstance(s, (int, float)) else abs(s) / 2

        return LazyReal(thunk)

    def intersection(self, other):
        a, b = self, other
        return _LazyIntersection(a, b)


class _LazyIntersection:
    def __init__(self, a, b):
        self.a, self.b = a, b

    @property
    def area(self):
        def thunk():
            poly = _clip(self.a._open(), self.b._open())
            if len(poly) < 3:
                return 0.0
            return ConvexPolygon(poly + poly[:1]).area.e

        return LazyReal(thunk)


def _same(a, b):
    r = a == b
    return bool(r)


def _orient(pts):
    s = 0
    n = len(pts)
    for i in range(n):
        s = s + (pts[i][0] * pts[(i + 1) % n][1] - pts[(i + 1) % n][0] * pts[i][1])
    return s


def _num(e):
    """Return python Fraction if SReal/number is concrete after simplification else None."""
    if isinstance(e, SReal):
        t = z3.simplify(e.e, som=True)
        if z3.is_rational_value(t):
            return Fraction(t.numerator_as_long(), t.denominator_as_long())
        return None
    return Fraction(e)


def _cvec(p, q):
    dx, dy = _num(q[0] - p[0]), _num(q[1] - p[1])
    if dx is not None and dy is not None:
        return (dx, dy)
    # axis-parallel edges of symbolic length still have a concrete direction
    if dy == 0 and dx is None:
        return (Fraction(1) if bool(q[0] - p[0] > 0) else Fraction(-1), Fraction(0))
    if dx == 0 and dy is None:
        return (Fraction(0), Fraction(1) if bool(q[1] - p[1] > 0) else Fraction(-1))
    return None


def _clip(subject, clipper):
    """Sutherland-Hodgman; forks on side tests; tracks concrete edge directions so cut points stay linear."""
    if bool(_orient(clipper) < 0):
        clipper = list(reversed(clipper))
    out = [(p[0], p[1]) for p in subject]
    dirs = [_cvec(out[j - 1], out[j]) for j in range(len(out))]  # direction of edge ending at j
    n = len(clipper)
    for i in range(n):
        a, b = clipper[i], clipper[(i + 1) % n]
        ax, ay, bx, by = a[0], a[1], b[0], b[1]
        v = _cvec(a, b)
        inp, idirs, out, dirs = out, dirs, [], []
        if not inp:
            break

        def side(p):
            if v is not None:
                return v[0] * (p[1] - ay) - v[1] * (p[0] - ax)
            return (bx - ax) * (p[1] - ay) - (by - ay) * (p[0] - ax)

        last_was_cut = False
        for j in range(len(inp)):
            cur, prev, u = inp[j], inp[j - 1], idirs[j]
            sc, sp = side(cur), side(prev)
            cin, pin = bool(sc >= 0), bool(sp >= 0)
            if cin != pin:
                if u is not None and v is not None:
                    cr = v[0] * u[1] - v[1] * u[0]
                    tau = -sp / cr
                    P = (prev[0] + tau * u[0], prev[1] + tau * u[1])
                else:
                    t = sp / (sp - sc)
                    P = (prev[0] + t * (cur[0] - prev[0]), prev[1] + t * (cur[1] - prev[1]))
                out.append(P)
                dirs.append(u if pin else v)
            if cin:
                out.append(cur)
                dirs.append(u)
        # first output vertex's incoming edge: fix when it closes along clip line
        if out and dirs:
            pass
    return out


class Rot:
    """Stand-in for pyquaternion.Quaternion: exact rotation matrix (object array of SReal/Fraction) + sign."""

    def __init__(self, *args, matrix=None, sign=1, **kw):
        if matrix is not None:
            m = _np.empty((3, 3), dtype=object)
            for i in range(3):
                for j in range(3):
                    m[i, j] = matrix[i][j]
            self.m = m
        elif len(args) == 1 and isinstance(args[0], Rot):
            self.m = args[0].m.copy()
            sign = args[0].sign
        elif not args:
            self.m = _np.array([[1, 0, 0], [0, 1, 0], [0, 0, 1]], dtype=object)
        else:
            raise NotImplementedError(args)
        self.sign = sign

    @classmethod
    def yaw(cls, c, s, sign=1):
        c = SReal(z3.RealVal(str(c)))
        s = SReal(z3.RealVal(str(s)))
        return cls(matrix=[[c, -s, 0], [s, c, 0], [0, 0, 1]], sign=sign)

    @property
    def rotation_matrix(self):
        return self.m.copy()

    def rotate(self, v):
        out = _np.empty(3, dtype=object)
        for i in range(3):
            out[i] = self.m[i, 0] * v[0] + self.m[i, 1] * v[1] + self.m[i, 2] * v[2]
        return out

    def __eq__(self, o):
        if not isinstance(o, Rot):
            return False
        for a, b in zip(self.m.flat, o.m.flat):
            if not bool(a == b):
                return False
        return True

    def __deepcopy__(self, memo):
        return self


def _f(v):
    n = _num(v)
    return float(n)


def _yaw(self):
    return math.atan2(_f(self.m[1, 0]), _f(self.m[0, 0]))


Rot.yaw_pitch_roll = property(lambda self: (_yaw(self), 0.0, 0.0))
Rot.radians = property(lambda self: self.sign * abs(_yaw(self)))
