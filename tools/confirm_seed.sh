#!/bin/bash
# tools/confirm_seed.sh <property-id> <worktree> [name]
# Confirms a seeded change delivered by a sub-agent in its scratch worktree: demo fails with / passes without the
# change, the unedited test-suite passes with it; then stores patch.diff, the demo and the note under /verif/seeded/<name>/.
id=$1; wt=$2; name=${3:-$id}
out=/verif/seeded/$name; mkdir -p $out
cd $wt || exit 1
git diff -- perception_eval > $out/patch.diff
cp demo_$id.py $out/demo.py 2>/dev/null; cp NOTE_$id.md $out/NOTE.md 2>/dev/null
export PYTHONPATH=$wt/perception_eval
/venv/bin/python demo_$id.py > $out/demo_with.log 2>&1; with=$?
git apply -R $out/patch.diff
/venv/bin/python demo_$id.py > $out/demo_without.log 2>&1; without=$?
git apply $out/patch.diff
/venv/bin/python -m pytest -q -p no:cacheprovider perception_eval/test > $out/tests_with.log 2>&1; tests=$?
tail -1 $out/tests_with.log > $out/tests_summary.txt
echo "{\"demo_exit_with_change\": $with, \"demo_exit_without_change\": $without, \"testsuite_exit_with_change\": $tests, \"testsuite_summary\": \"$(tail -1 $out/tests_with.log | tr -d '\"')\"}" > $out/confirm.json
cat $out/confirm.json
