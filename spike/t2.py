import sys, time
sys.path.insert(0, '/tmp/spike')
import warnings; warnings.filterwarnings("ignore")
from fractions import Fraction as F
import z3, symx, symnp, models
from symx import SReal, SBool
from perception_eval.common.object import DynamicObject
from perception_eval.common.shape import Shape, ShapeType
from perception_eval.common.label import Label, AutowareLabel
from perception_eval.common.schema import FrameID
import perception_eval.common.object as PO, perception_eval.evaluation.matching.object_matching as OM, perception_eval.common.point as PP, perception_eval.common.shape as PS
import perception_eval.common as PC
for m in (PC, PP, PO, OM, PS):
    m.np = symnp.np
OM.math = symnp.math; PO.math = symnp.math
PO.Polygon = models.ConvexPolygon; OM.Polygon = models.ConvexPolygon; PS.Polygon = models.ConvexPolygon

ROT = {"0":(1,0), "90":(0,1), "p345":(F(3,5),F(4,5)), "m512":(F(5,13),-F(12,13)), "180":(-1,0), "q2":(-F(4,5),F(3,5))}
r1, r2, symsize = sys.argv[1], sys.argv[2], sys.argv[3]=="1"
def mk(name, rot, pos, size):
    c,s = ROT[rot]
    c,s = SReal(z3.RealVal(str(c))), SReal(z3.RealVal(str(s)))
    lab=AutowareLabel.CAR
    return DynamicObject(0, FrameID.BASE_LINK, pos, models.YawQuat(c,s), Shape(ShapeType.BOUNDING_BOX,size), None, 0.5, Label(lab, lab.value), uuid=name)

def run():
    C=symx.CTX
    x,y = SReal(C.var("x")), SReal(C.var("y"))
    if symsize:
        w1,l1,w2,l2 = [SReal(C.var(n)) for n in ("w1","l1","w2","l2")]
        for v in (w1,l1,w2,l2): C.add(z3.And(v.e>0, v.e<=10))
    else:
        w1,l1,w2,l2 = 2.0,4.0,1.5,3.0
    a = mk("a", r1, (0.0,0.0,0.0), (w1,l1,1.0))
    b = mk("b", r2, (x,y,0.0), (w2,l2,1.0))
    iou_ab = OM.IOU2dMatching(a,b).value
    iou_ba = OM.IOU2dMatching(b,a).value
    def nd(v):
        e = z3.simplify(v.e)
        if e.decl().kind()!=z3.Z3_OP_DIV: return e, z3.RealVal(1)
        return e.arg(0), e.arg(1)
    n1,d1 = nd(iou_ab); n2,d2 = nd(iou_ba)
    return z3.And(d1>0, d2>0, n1>=0, n1<=d1, n1*d2==n2*d1)
t=time.time()
paths, results, ctx = symx.explore(run, timeout_ms=20000)
print(r1,r2,symsize,"paths",paths,"results",[(r[0]) for r in results][:5],len(results),"checks",ctx.n_checks,"solver_s",round(ctx.t_solver,2),"unknown",ctx.n_unknown,"wall",round(time.time()-t,2))
if results and results[0][0]=="cex": print(results[0][1])
