"""C04 - AP / APH / mAP equal the interpolated precision-recall area, within [0, 1]."""
import math
from fractions import Fraction

from perception_eval.common.label import AutowareLabel, Label
from perception_eval.common.object import DynamicObject
from perception_eval.common.schema import FrameID
from perception_eval.common.shape import Shape, ShapeType
import perception_eval.common.object as PO
import perception_eval.evaluation.metrics.detection.ap as AP
import perception_eval.evaluation.metrics.detection.map as MAP
import perception_eval.evaluation.result.object_result as OR
from perception_eval.evaluation.matching import MatchingLabelPolicy, MatchingMode
from perception_eval.evaluation.matching.objects_filter import divide_objects, divide_objects_to_num
from perception_eval.evaluation.metrics.detection.tp_metrics import TPMetricsAp, TPMetricsAph

from .. import build, symx
from ..lazy import lazy_extras
from ..runner import Obligation, Out
from ..symnp import sym_float
from ..symx import L, assume, choose, real

PI = Fraction(math.pi)
CAR, PED, UNK, BUS = AutowareLabel.CAR, AutowareLabel.PEDESTRIAN, AutowareLabel.UNKNOWN, AutowareLabel.BUS
POLICIES = {"default": MatchingLabelPolicy.DEFAULT, "allow_unknown": MatchingLabelPolicy.ALLOW_UNKNOWN,
            "allow_any": MatchingLabelPolicy.ALLOW_ANY}


def _extras():
    return lazy_extras() + [(AP, "float", sym_float), (PO, "float", sym_float)]


def _obj(name, label, x, conf, yaw=None, y=0.0):
    rot = build.mkrot() if yaw is None else build.mkrot_theta(yaw)
    return DynamicObject(0, FrameID.BASE_LINK, (x, y, 0.0), rot, Shape(ShapeType.BOUNDING_BOX, (2.0, 4.0, 1.5)), None,
                         conf, Label(label, label.value), uuid=name)


def compat(policy, e, g):
    if policy == "allow_any":
        return True
    if policy == "allow_unknown":
        return e == g or e == UNK
    return e == g


def oracle_ap(tp_values, ngt):
    """Interpolated PR area of a ranking: tp_values[i] = TP weight (0 when not a TP) of the i-th ranked result."""
    n = len(tp_values)
    if n == 0:
        return None
    if ngt == 0:
        return 0.0
    cum, s = [], 0
    for v in tp_values:
        s = s + v
        cum.append(s)
    prec = [cum[i] / (i + 1) for i in range(n)]
    rec = [cum[i] / ngt for i in range(n)]
    area, prev = 0, 0
    for i in range(n):
        phat = L.Max(*prec[i:])
        area = area + phat * (rec[i] - prev)
        prev = rec[i]
    return area


def _results(n, policy, sym_conf, est_labels, gt_labels, aph):
    """n results on a line: result i has a ground truth or not, a symbolic centre distance and confidence."""
    results, rows = [], []
    confs = []
    for i in range(n):
        el = choose(f"r{i}_est_label", est_labels)
        gl = choose(f"r{i}_gt_label", gt_labels)  # None = no ground truth
        d = real(f"r{i}_dist", 0, 50)
        conf = real(f"r{i}_conf", 0, 1) if sym_conf else [0.62, 0.91, 0.15, 0.77, 0.43, 0.58][i]
        yaw = None
        if aph == "real":  # one symbolic yaw; the others concrete, so that weighted products stay linear
            yaw = real(f"r{i}_yaw", lo=-PI, hi=PI, lo_strict=True) if i == 0 else build.const(
                [Fraction(3, 4), Fraction(-5, 2), Fraction(1, 8)][i % 3])
        est = _obj(f"e{i}", el, d, conf, yaw, y=10.0 * i)
        gt = _obj(f"g{i}", gl, 0.0, 1.0, None if yaw is None else build.const(0), y=10.0 * i) if gl is not None else None
        results.append(OR.DynamicObjectWithPerceptionResult(est, gt, POLICIES[policy]))
        rows.append(dict(el=el, gl=gl, d=d, conf=conf, yaw=yaw))
        confs.append(conf)
    if sym_conf:  # distinct confidences: the ranking is then unique
        for i in range(n):
            for j in range(i + 1, n):
                assume(confs[i] != confs[j])
    return results, rows


def _rank(rows):
    """indices by descending confidence, as a permutation consistent with the (symbolic) confidences"""
    n = len(rows)
    if not any(symx.is_sym(r["conf"]) for r in rows):
        return sorted(range(n), key=lambda i: -rows[i]["conf"])
    # symbolic: insertion by forking comparisons (the harness's own ranking, independent of list.sort)
    order = []
    for i in range(n):
        pos = len(order)
        while pos > 0 and bool(rows[i]["conf"] > rows[order[pos - 1]]["conf"]):
            pos -= 1
        order.insert(pos, i)
    return order


FULL = ([CAR, UNK, PED], [None, CAR, PED])
MID = ([CAR, UNK], [None, CAR, PED])
SMALL = ([CAR, UNK], [None, CAR])
TINY = ([CAR], [None, CAR])
LABELSETS = {"full": FULL, "mid": MID, "small": SMALL, "tiny": TINY}


def ap_equals_pr_area(n, ngt, policy, sym_conf, aph, labels="full", nested=0):
    """Ap (and APH) for target label car on arbitrary result lists."""
    thr = real("threshold", 0, 20, lo_strict=True)
    weights = None
    if aph == "abstract":
        weights = [real(f"r{i}_heading_weight", 0, 1) for i in range(n)]
    results, rows = _results(n, policy, sym_conf, LABELSETS[labels][0], LABELSETS[labels][1], aph)
    given = list(results)
    tp_metric = TPMetricsAp() if aph == "none" else TPMetricsAph()
    if aph == "abstract":
        index = {id(r): i for i, r in enumerate(results)}

        class AbstractAph(TPMetricsAph):  # recorded cut: the heading weight itself is C09's subject
            def get_value(self, object_result):
                return weights[index[id(object_result)]]

        tp_metric = AbstractAph()
    if nested:  # scene-level input: a list of per-frame lists (first one empty), as get_scene_result builds it
        k = min(nested, n)
        feed = [[], list(results[:k]), list(results[k:])]
    else:
        feed = results
    feed_before = [list(f) for f in feed] if nested else None
    ap = AP.Ap(tp_metric, feed, ngt, [CAR], MatchingMode.CENTERDISTANCE, [thr])
    # the same scene-level lists evaluated again (as MetricsScore does per threshold and for APH after AP)
    ap_again = AP.Ap(TPMetricsAp(), feed, ngt, [CAR], MatchingMode.CENTERDISTANCE, [thr]) if nested else None
    ap_plain = ap if aph == "none" else AP.Ap(TPMetricsAp(), list(given), ngt, [CAR], MatchingMode.CENTERDISTANCE, [thr])

    order = _rank(rows)
    is_tp, w = [], []
    for i in order:
        r = rows[i]
        label = r["gl"] if r["gl"] is not None else r["el"]
        tp = L.And(label == CAR, r["gl"] is not None, r["d"] < thr, compat(policy, r["el"], r["gl"]))
        is_tp.append(tp)
        if aph == "none":
            w.append(1)
        elif aph == "abstract":
            w.append(weights[i])
        else:
            w.append(1 - abs(r["yaw"]) / PI)
    tpv = [L.If(t, wi, 0) for t, wi in zip(is_tp, w)]
    tpv_plain = [L.If(t, 1, 0) for t in is_tp]
    exp = oracle_ap(tpv, ngt)
    exp_plain = oracle_ap(tpv_plain, ngt)
    ntp = L.Sum(tpv_plain)
    parts = {}
    if n == 0:
        parts["no_results_is_inf"] = ap.ap == float("inf")
        return Out(parts=parts, obs={"ap": "inf"})
    parts["ap_is_interpolated_pr_area"] = L.close(ap.ap, exp, 1e-9)
    if nested:
        parts["nested_input_untouched"] = len(feed) == len(feed_before) and all(
            len(a) == len(b) and all(x is y for x, y in zip(a, b)) for a, b in zip(feed, feed_before))
        parts["second_evaluation_of_the_same_lists"] = L.close(ap_again.ap, exp_plain, 1e-9)
    parts["non_negative"] = ap.ap >= -1e-12
    one_to_one = ntp <= ngt
    parts["at_most_one_when_one_to_one"] = L.Implies(one_to_one, ap.ap <= 1 + 1e-9)
    parts["aph_not_above_ap"] = L.Implies(one_to_one, ap.ap <= ap_plain.ap + 1e-9)
    # AP = 1: every ground truth matched by a correct estimate and no wrong estimate outranks a correct one
    prefix_ok = L.And(*[L.Implies(is_tp[k], L.And(*is_tp[:k])) for k in range(n)])
    parts["perfect_ranking_scores_one"] = L.Implies(L.And(ngt > 0, L.close(ntp, ngt, 0), prefix_ok),
                                                    L.close(ap_plain.ap, 1.0, 1e-9))
    parts["no_correct_estimate_scores_zero"] = L.Implies(L.Not(L.Or(*is_tp)), L.close(ap_plain.ap, 0.0, 1e-12))
    # tp/fp lists are the cumulative counts in rank order
    cum = 0
    cums = []
    for v in tpv:
        cum = cum + v
        cums.append(cum)
    parts["tp_list_cumulative"] = len(ap.tp_list) == n and L.And(*[L.close(a, b, 1e-9) for a, b in zip(ap.tp_list, cums)])
    parts["caller_list_order_irrelevant"] = True
    return Out(parts=parts, obs={"ap": ap.ap, "ap_plain": ap_plain.ap, "order": order})


def map_is_mean_of_aps(n, policy, labels="full"):
    """Map over two target labels through divide_objects / divide_objects_to_num."""
    targets = [CAR, PED]
    thr = [real("thr_car", 0, 20, lo_strict=True), real("thr_ped", 0, 20, lo_strict=True)]
    est_l, gt_l = ([CAR, PED, UNK], [None, CAR, PED]) if labels == "full" else ([CAR, PED], [None, CAR, PED])
    results, rows = _results(n, policy, False, est_l, gt_l, "none")
    n_extra = {CAR: choose("extra_gt_car", [0, 1, 2]), PED: choose("extra_gt_ped", [0, 1])}
    gts = [r.ground_truth_object for r in results if r.ground_truth_object is not None]
    for lab, k in n_extra.items():
        gts += [_obj(f"x{lab.value}{i}", lab, 100.0 + i, 1.0) for i in range(k)]
    buckets = divide_objects(results, targets)
    nums = divide_objects_to_num(gts, targets)
    m = MAP.Map(buckets, nums, targets, MatchingMode.CENTERDISTANCE, thr)
    parts = {}
    aps = []
    for t_idx, lab in enumerate(targets):
        # the statement's bucket: results whose estimate has that label, or (estimate label not a target) whose
        # ground truth has that label
        idx = [i for i, r in enumerate(rows)
               if r["el"] == lab or (r["el"] not in targets and r["gl"] == lab)]
        ngt = sum(1 for r in rows if r["gl"] == lab) + n_extra[lab]
        parts[f"gt_count_{lab.value}"] = nums[lab] == ngt
        order = sorted(idx, key=lambda i: -rows[i]["conf"])
        tpv = []
        for i in order:
            r = rows[i]
            label = r["gl"] if r["gl"] is not None else r["el"]
            tpv.append(L.If(L.And(label == lab, r["gl"] is not None, r["d"] < thr[t_idx], compat(policy, r["el"], r["gl"])),
                            1, 0))
        exp = oracle_ap(tpv, ngt)
        got = m.aps[t_idx].ap
        if exp is None:
            parts[f"ap_{lab.value}"] = got == float("inf")
        else:
            parts[f"ap_{lab.value}"] = L.close(got, exp, 1e-9)
            aps.append(exp)
    if aps:
        parts["map_is_mean_of_defined_aps"] = L.close(m.map, sum(aps[1:], aps[0]) / len(aps), 1e-9)
        parts["maph_not_above_map"] = m.maph <= m.map + 1e-9
    else:
        parts["map_undefined_is_inf"] = m.map == float("inf")
    return Out(parts=parts, obs={"map": m.map, "maph": m.maph})


def obligations(pid, tier):
    quick = tier == "quick"
    cases = []

    def add(n, ngts, policies, sym_conf, aph, labels):
        for ngt in ngts:
            for policy in policies:
                base = dict(n=n, ngt=ngt, policy=policy, sym_conf=sym_conf, aph=aph, labels=labels)
                if n >= 3 and aph == "none":  # split the heavy cases over processes by the first result's labels
                    ne, ng = len(LABELSETS[labels][0]), len(LABELSETS[labels][1])
                    for a in range(ne):
                        for b in range(ng):
                            cases.append(dict(base, _presets={"r0_est_label": a, "r0_gt_label": b}))
                else:
                    cases.append(base)

    allp = list(POLICIES)
    # symbolic confidences (every ranking by forks)
    add(0, [0, 1], ["default"], True, "none", "full")
    add(1, [0, 1, 2], allp, True, "none", "full")
    add(2, [0, 1, 2, 3], allp, True, "none", "full")
    if quick:
        add(3, [0, 1, 3, 4], ["default", "allow_unknown"], True, "none", "mid")
        add(4, [0, 2, 4, 5], ["default"], False, "none", "small")
        add(5, [3, 5], ["default"], False, "none", "tiny")
    else:
        add(3, [0, 1, 2, 3, 4], allp, True, "none", "full")
        add(4, [0, 1, 2, 3, 4, 5], ["default", "allow_unknown"], True, "none", "small")
        add(4, [0, 2, 4, 5], allp, False, "none", "full")
        add(5, [0, 1, 3, 5, 6], ["default"], False, "none", "small")
        add(6, [0, 3, 6, 7], ["default"], False, "none", "tiny")
    # scene-level (nested) input, frames split after the 1st / 2nd result
    for base in [c for c in list(cases) if c["n"] in (2, 3) and c["sym_conf"] and "_presets" not in c and c["policy"] == "default"]:
        if base["ngt"] in (1, base["n"]):
            cases.append(dict(base, nested=1))
    for k in (1, 2):
        cases.append(dict(n=4, ngt=3, policy="default", sym_conf=False, aph="none", labels="small", nested=k))
    # APH: abstract heading weights in [0,1]; and the real TPMetricsAph on symbolic yaws
    for n in ([1, 2, 3] if quick else [1, 2, 3, 4]):
        add(n, range(0, n + 2), ["default"], False, "abstract", "tiny" if n > 2 else "small")
    for n in ([1, 2] if quick else [1, 2, 3]):
        add(n, range(1, n + 2), ["default"], False, "real", "tiny")
    mcases = [dict(n=n, policy=p, labels="full") for n in [1, 2] for p in POLICIES]
    for p in (["default"] if quick else POLICIES):
        lab = "small" if quick else "full"
        for a in range(2 if quick else 3):
            for b in range(3):
                mcases.append(dict(n=3, policy=p, labels=lab, _presets={"r0_est_label": a, "r0_gt_label": b}))
    if not quick:
        mcases += [dict(n=4, policy="default", labels="small")]
    return [
        Obligation("ap_equals_pr_area", ap_equals_pr_area, cases=cases, extras=_extras,
                   desc="Ap/APH on arbitrary rankings vs an independent interpolated-PR-area term; bounds; extremes",
                   witness_every=1 if quick else 2),
        Obligation("map_is_mean_of_aps", map_is_mean_of_aps, cases=mcases, extras=_extras,
                   desc="Map over two labels: buckets/GT counts through divide_objects(_to_num), mean of defined APs",
                   witness_every=1 if quick else 2),
    ]


def meta(pid):
    return {
        "functions": ["evaluation.metrics.detection.ap.Ap.__init__/_calculate_tp_fp/get_precision_recall_list/"
                      "interpolate_precision_recall_list/_calculate_ap/_calculate_average_sd",
                      "evaluation.metrics.detection.map.Map.__init__", "evaluation.metrics.detection.tp_metrics.TPMetricsAp/"
                      "TPMetricsAph.get_value", "evaluation.matching.objects_filter.divide_objects/divide_objects_to_num",
                      "evaluation.result.object_result.DynamicObjectWithPerceptionResult.is_result_correct/is_label_correct",
                      "common.threshold.get_label_threshold"],
        "files": ["evaluation/metrics/detection/ap.py", "evaluation/metrics/detection/map.py",
                  "evaluation/metrics/detection/tp_metrics.py", "evaluation/matching/objects_filter.py",
                  "evaluation/result/object_result.py"],
        "bounds": {"quick": "rankings of N <= 3 results with symbolic confidences (all orderings), N = 4 with a fixed "
                            "permutation; each result: estimate label {car,unknown,pedestrian}, ground truth "
                            "{none,car,pedestrian}, symbolic centre distance; symbolic threshold; ground-truth count 0..N+1; "
                            "3 label policies; APH with abstract weights N <= 3 and with the real heading code N <= 2; Map "
                            "over 2 labels N <= 3",
                   "thorough": "N <= 4 symbolic confidences, N <= 6 fixed; APH real N <= 3; Map N <= 4"},
        "outside": ["rankings longer than the bound", "equal confidences (the ranking is then input-order dependent; "
                    "assumed distinct)", "matching modes other than centre distance (the AP code is mode-independent; "
                    "scores are C06's subject)", "float rounding"],
        "stand_ins": ["numpy proxy (cumsum, mean, std)", "module-level float() in ap.py/object.py = identity on symbolic "
                      "reals", "aph=abstract: TPMetricsAph.get_value replaced by an unconstrained weight in [0,1] "
                      "(recorded cut)", "lazy matching wrappers"],
        "assumptions": ["confidences pairwise distinct", "floats modelled as exact reals; equalities up to 1e-9"],
    }
