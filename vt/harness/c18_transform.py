"""C18 - coordinate transforms compose and invert consistently; registry fallback."""
from fractions import Fraction as Fr

import numpy as np
from perception_eval.common.schema import FrameID
from perception_eval.common.transform import HomogeneousMatrix, TransformDict, TransformKey

from .. import build, models, symx
from ..runner import Obligation, Out
from ..symx import L, choose, real

# exact rotation catalogue: un-normalised rational quaternions (both double-cover signs are used)
QUATS = {
    "id": (1, 0, 0, 0), "yaw90": (1, 0, 0, 1), "yaw180": (0, 0, 0, 1), "yaw_3_4_5": (2, 0, 0, 1),
    "yaw_neg": (3, 0, 0, -1), "roll90": (1, 1, 0, 0), "pitch_5_12_13": (5, 0, 1, 0), "axis111_120": (1, 1, 1, 1),
    "mixed_a": (2, 1, 0, 1), "mixed_b": (1, 2, 3, 4), "mixed_c": (4, -1, 2, -3),
}
FRAMES = [FrameID.BASE_LINK, FrameID.MAP, FrameID.LIDAR_TOP, FrameID.CAM_FRONT]


def qmat(q):
    return models.q_to_matrix(tuple(Fr(v) for v in q))


def mmul(A, B):
    return [[sum(A[i][k] * B[k][j] for k in range(3)) for j in range(3)] for i in range(3)]


def mT(A):
    return [[A[j][i] for j in range(3)] for i in range(3)]


def mvec(A, v):
    return [A[i][0] * v[0] + A[i][1] * v[1] + A[i][2] * v[2] for i in range(3)]


def cmat(A):
    """rational matrix -> entries usable in the current mode"""
    return [[build.const(v) for v in row] for row in A]


def rot_arg(qname, sign, as_matrix):
    q = tuple(sign * Fr(v) for v in QUATS[qname])
    r = build.mkrot(q)
    if as_matrix:
        return r.rotation_matrix
    return r


def vec(name):
    return [real(f"{name}_x", -100, 100), real(f"{name}_y", -100, 100), real(f"{name}_z", -100, 100)]


def close_vec(a, b):
    return L.And(*[L.close(x, y, 1e-7) for x, y in zip(a, b)])


def close_rot(rot, M):
    R = rot.rotation_matrix
    return L.And(*[L.close(R[i][j], build.const(M[i][j]), 1e-7) for i in range(3) for j in range(3)])


def hm(name, qname, sign, as_matrix, src, dst, buffer=False):
    t = vec(name)
    if buffer:
        # the translation is handed over in a caller-owned array that the caller reuses afterwards
        from ..symnp import symarray
        buf = symarray(list(t)) if symx.is_symbolic() else np.array([float(v) for v in t])
        T = HomogeneousMatrix(buf, rot_arg(qname, sign, as_matrix), src, dst)
        buf += 1.0
    else:
        T = HomogeneousMatrix(tuple(t), rot_arg(qname, sign, as_matrix), src, dst)
    return T, t, qmat(QUATS[qname])


def inverse_roundtrip(qT, qR, sign, as_matrix, buffer=False):
    T, t, MT = hm("t", qT, sign, as_matrix, FrameID.BASE_LINK, FrameID.MAP, buffer=buffer)
    p = vec("p")
    MR = qmat(QUATS[qR])
    R = build.mkrot(tuple(Fr(v) for v in QUATS[qR]))
    parts = {}
    # forward: matches the 4x4 matrix product  [MT t; 0 1] . [MR p; 0 1]
    p1, R1 = T.transform(tuple(p), R)
    exp_p1 = [a + b for a, b in zip(mvec(cmat(MT), p), t)]
    parts["pose_agrees_with_matrix_product"] = L.And(close_vec(p1, exp_p1), close_rot(R1, mmul(MT, MR)))
    # position-only overload agrees
    parts["position_overload"] = close_vec(T.transform(tuple(p)), exp_p1)
    parts["keyword_overload"] = close_vec(T.transform(position=tuple(p)), exp_p1)
    # inverse
    Ti = T.inv()
    parts["inverse_labels"] = Ti.src == FrameID.MAP and Ti.dst == FrameID.BASE_LINK
    p0, R0 = Ti.transform(p1, R1)
    parts["inverse_roundtrip"] = L.And(close_vec(p0, p), close_rot(R0, MR))
    # the other order
    q1, S1 = Ti.transform(tuple(p), R)
    q0, S0 = T.transform(q1, S1)
    parts["inverse_roundtrip_reverse"] = L.And(close_vec(q0, p), close_rot(S0, MR))
    # the stored 4x4 matrix is [MT t; 0 0 0 1]
    M = T.matrix
    parts["stored_matrix"] = L.And(
        *[L.close(M[i][j], build.const(MT[i][j]), 1e-9) for i in range(3) for j in range(3)],
        *[L.close(M[i][3], t[i], 1e-9) for i in range(3)],
        *[L.close(M[3][j], 1.0 if j == 3 else 0.0, 1e-12) for j in range(4)],
    )
    return Out(parts=parts, obs={"p1": list(p1), "p0": list(p0)})


def composition(qA, qB, sign):
    A, ta, MA = hm("a", qA, sign, False, FrameID.BASE_LINK, FrameID.LIDAR_TOP)
    B, tb, MB = hm("b", qB, 1, True, FrameID.LIDAR_TOP, FrameID.MAP)
    p = vec("p")
    parts = {}
    C = B.dot(A)
    parts["composition_labels"] = C.src == FrameID.BASE_LINK and C.dst == FrameID.MAP
    two_step = B.transform(A.transform(tuple(p)))
    parts["composition_equals_two_steps"] = close_vec(C.transform(tuple(p)), two_step)
    exp = [x + y for x, y in zip(mvec(cmat(MB), [u + v for u, v in zip(mvec(cmat(MA), p), ta)]), tb)]
    parts["composition_equals_matrix_product"] = close_vec(C.transform(tuple(p)), exp)
    parts["composition_rotation"] = close_rot(C.rotation, mmul(MB, MA))
    # matrix overload: A.transform(X) for X: dst(A) -> Z is X o A
    C2 = A.transform(B)
    parts["matrix_overload"] = L.And(C2.src == FrameID.BASE_LINK, C2.dst == FrameID.MAP,
                                     close_vec(C2.transform(tuple(p)), two_step))
    C3 = A.transform(matrix=B)
    parts["matrix_keyword_overload"] = close_vec(C3.transform(tuple(p)), two_step)
    # mismatched frames are rejected
    try:
        A.dot(B)  # A.src = BASE_LINK != B.dst = MAP
        parts["mismatch_rejected"] = False
    except ValueError:
        parts["mismatch_rejected"] = True
    # ... on every composition route: the matrix overloads and the registry's transform(key, matrix)
    def rejected(f):
        try:
            f()
            return False
        except ValueError:
            return True

    parts["mismatch_rejected_by_matrix_overload"] = rejected(lambda: B.transform(A)) and rejected(lambda: B.transform(matrix=A))
    td = TransformDict([A])  # registered base_link -> lidar_top; composing it with a matrix that starts elsewhere
    parts["mismatch_rejected_by_registry"] = rejected(lambda: td.transform((FrameID.BASE_LINK, FrameID.LIDAR_TOP), A)) and \
        rejected(lambda: td.transform((FrameID.LIDAR_TOP, FrameID.BASE_LINK), matrix=B))
    ok = td.transform((FrameID.BASE_LINK, FrameID.LIDAR_TOP), B)
    parts["registry_composition"] = L.And(ok.src == FrameID.BASE_LINK, ok.dst == FrameID.MAP,
                                          close_vec(ok.transform(tuple(p)), two_step))
    # three-frame chain is associative
    D, td, MD = hm("d", qA, 1, False, FrameID.MAP, FrameID.CAM_FRONT)
    left = D.dot(B).dot(A).transform(tuple(p))
    right = D.dot(B.dot(A)).transform(tuple(p))
    parts["chain_associative"] = L.And(close_vec(left, right), close_vec(left, D.transform(two_step)))
    return Out(parts=parts, obs={"c": list(C.transform(tuple(p)))})


def _spell(frame, how):
    if how == "enum":
        return frame
    if how == "lower":
        return frame.value
    return frame.value.upper()


def registry(qT, n_registered, spelling):
    """TransformDict: direct hit, inverse fallback, identity, KeyError; all key spellings."""
    src = choose("src", FRAMES)
    dst = choose("dst", FRAMES)
    mats, info = [], {}
    reg_pairs = [(FrameID.BASE_LINK, FrameID.MAP), (FrameID.LIDAR_TOP, FrameID.BASE_LINK)][:n_registered]
    for k, (a, b) in enumerate(reg_pairs):
        # registered under the *string* spelling to exercise FrameID.from_value in HomogeneousMatrix
        T, t, M = hm(f"r{k}", qT if k == 0 else "yaw90", 1, False, _spell(a, "lower" if k else "upper"), b)
        mats.append(T)
        info[(a, b)] = (T, t, M)
    td = TransformDict(mats if len(mats) != 1 else mats[0])
    p = vec("p")
    key_forms = {
        "tuple": (_spell(src, spelling), _spell(dst, spelling)),
        "key": TransformKey(_spell(src, spelling), _spell(dst, spelling)),
    }
    parts = {}
    outs = {}
    for form, key in key_forms.items():
        try:
            outs[form] = (td.transform(key, tuple(p)), None)
        except KeyError as e:
            outs[form] = (None, e)
    (r1, e1), (r2, e2) = outs["tuple"], outs["key"]
    parts["spellings_agree"] = (e1 is None) == (e2 is None) and (e1 is not None or close_vec(r1, r2))
    if src == dst:
        parts["identity"] = e1 is None and close_vec(r1, p)
    elif (src, dst) in info:
        T, t, M = info[(src, dst)]
        parts["direct"] = e1 is None and close_vec(r1, [a + b for a, b in zip(mvec(cmat(M), p), t)])
    elif (dst, src) in info:
        T, t, M = info[(dst, src)]
        # inverse: M^T (p - t)
        parts["inverse_fallback"] = e1 is None and close_vec(r1, mvec(cmat(mT(M)), [a - b for a, b in zip(p, t)]))
    else:
        parts["unregistered_raises"] = e1 is not None
    # pose overload consistent with position overload; identity returns the very inputs
    if e1 is None:
        R = build.mkrot((2, 0, 0, 1))
        pp, RR = td.transform(key_forms["tuple"], tuple(p), R)
        parts["pose_overload_position"] = close_vec(pp, r1)
    # get(): direct entries only, under every spelling
    got = td.get((_spell(src, spelling), _spell(dst, spelling)))
    parts["get_direct_only"] = (got is not None) == ((src, dst) in info)
    return Out(parts=parts, obs={"exc": e1 is not None, "r": list(r1) if r1 is not None else None})


def registry_history(qA, qB, ops):
    """Histories on one registry: queries interleaved with replacing / deleting / re-adding the registered entry
    (and on a deep copy, as the interpolation code does).  Every answer must reflect the entry registered *now*."""
    import copy

    A, ta, MA = hm("a", qA, 1, False, FrameID.BASE_LINK, FrameID.MAP)
    B, tb, MB = hm("b", qB, 1, False, FrameID.BASE_LINK, FrameID.MAP)
    td = TransformDict([A])
    p = vec("p")
    cur = (ta, MA)
    key = (FrameID.BASE_LINK, FrameID.MAP)
    parts = {}

    def check(tag):
        for name, k, inverse in (("direct", (FrameID.BASE_LINK, FrameID.MAP), False),
                                 ("inverse", (FrameID.MAP, "base_link"), True)):
            try:
                r, exc = td.transform(k, tuple(p)), None
            except KeyError as e:
                r, exc = None, e
            if cur is None:
                parts[f"{tag}_{name}_raises_when_unregistered"] = exc is not None
            else:
                t, M = cur
                exp = mvec(cmat(mT(M)), [a - b for a, b in zip(p, t)]) if inverse else \
                    [a + b for a, b in zip(mvec(cmat(M), p), t)]
                parts[f"{tag}_{name}"] = exc is None and close_vec(r, exp)

    check("start")
    for i, op in enumerate(ops):
        if op == "set":
            td[key] = B
            cur = (tb, MB)
        elif op == "set_str_key":
            td[("BASE_LINK", "map")] = B
            cur = (tb, MB)
        elif op == "del":
            del td[key]
            cur = None
        elif op == "readd":
            td[key] = A
            cur = (ta, MA)
        elif op == "copy":
            td = copy.deepcopy(td)
        check(f"after{i}_{op}")
    parts["length"] = len(td) == (0 if cur is None else 1)
    return Out(parts=parts, obs={"n": len(parts)})


def obligations(pid, tier):
    quick = tier == "quick"
    qs = list(QUATS)
    if quick:
        inv_cases = [dict(qT=a, qR=b, sign=s, as_matrix=m) for a in qs for b in ("id", "mixed_a") for s in (1, -1)
                     for m in (False, True)]
        comp_cases = [dict(qA=a, qB=b, sign=s) for a in qs[:8] for b in ("yaw_3_4_5", "mixed_b") for s in (1, -1)]
    else:
        inv_cases = [dict(qT=a, qR=b, sign=s, as_matrix=m) for a in qs for b in qs for s in (1, -1)
                     for m in (False, True)]
        comp_cases = [dict(qA=a, qB=b, sign=s) for a in qs for b in qs for s in (1, -1)]
    inv_cases += [dict(qT=a, qR="mixed_a", sign=1, as_matrix=False, buffer=True) for a in ("yaw_3_4_5", "mixed_b")]
    reg_cases = [dict(qT=q, n_registered=n, spelling=sp) for q in (("mixed_a", "yaw_3_4_5") if quick else qs)
                 for n in (0, 1, 2) for sp in ("enum", "lower", "upper")]
    hist_ops = [("set",), ("del",), ("copy", "set"), ("set_str_key", "del", "readd"), ("del", "readd", "set"),
                ("copy", "del", "readd")]
    hist_cases = [dict(qA=a, qB=b, ops=list(o)) for (a, b) in ([("yaw_3_4_5", "mixed_a")] if quick else
                                                              [("yaw_3_4_5", "mixed_a"), ("mixed_b", "roll90"), ("id", "yaw90")])
                  for o in hist_ops]
    return [
        Obligation("registry_history", registry_history, cases=hist_cases,
                   desc="queries interleaved with replacing / deleting / re-adding the registered entry answer with "
                        "the entry registered at that moment (direct and inverse fallback)"),
        Obligation("inverse_roundtrip", inverse_roundtrip, cases=inv_cases,
                   desc="T^-1(T(p,R)) = (p,R); transform(p,R) equals the 4x4 matrix product; overloads agree"),
        Obligation("composition", composition, cases=comp_cases,
                   desc="(B.A)(p) = B(A(p)), labelled src(A)->dst(B); mismatched dot raises; chains associate"),
        Obligation("registry", registry, cases=reg_cases,
                   desc="TransformDict: direct, inverse fallback, identity, KeyError; key spellings interchangeable"),
    ]


def meta(pid):
    return {
        "functions": ["common.transform.HomogeneousMatrix.__init__/dot/inv/transform (3 overloads)/from-matrix helpers",
                      "common.transform.TransformDict.__init__/get/transform/__setitem__/__delitem__/__len__", "common.transform.TransformKey",
                      "common.schema.FrameID.from_value"],
        "files": ["common/transform.py", "common/schema.py"],
        "bounds": {"quick": "rotations: 11 rational quaternions (yaw, roll, pitch, 3-D mixed) x both signs, given as "
                            "quaternion or as matrix; translations and positions symbolic reals in [-100,100]^3; chains "
                            "of <= 3 frames out of 4 frame ids; key spellings enum / lower / upper / TransformKey / tuple",
                   "thorough": "all ordered pairs of the rotation catalogue"},
        "outside": ["rotations that are not rational quaternions (irrational axis/angle pairs); float rounding"],
        "stand_ins": ["numpy proxy (eye, dot on object arrays, linalg.inv = exact Gauss-Jordan)",
                      "pyquaternion -> Rot (exact rational quaternion, pyquaternion's trace method for matrix input)"],
        "assumptions": ["floats modelled as exact reals; equalities asserted up to 1e-7 so that the concrete replay in "
                        "doubles uses the same predicate"],
    }
