"""C17 - ground-truth lookup picks the nearest frame in tolerance; interpolation is exact."""
import math
from fractions import Fraction

import perception_eval.common.dataset as DS
import perception_eval.common.geometry as GEO
from perception_eval.common.dataset import FrameGroundTruth, get_interpolated_now_frame, get_now_frame
from perception_eval.common.label import AutowareLabel, Label
from perception_eval.common.object import DynamicObject
from perception_eval.common.schema import FrameID
from perception_eval.common.shape import Shape, ShapeType
from perception_eval.common.transform import HomogeneousMatrix, TransformKey
from perception_eval.manager._evaluation_manager_base import _EvaluationMangerBase

from .. import build, symx
from ..runner import Obligation, Out
from ..symnp import sym_int
from ..symx import L, assume, choose, integer, real

PI = Fraction(math.pi)
CAR = AutowareLabel.CAR
EGO2MAP = TransformKey(FrameID.BASE_LINK, FrameID.MAP)


def _ego(pos=(0.0, 0.0, 0.0), q=(1, 0, 0, 0)):
    return HomogeneousMatrix(tuple(pos), build.mkrot(q), FrameID.BASE_LINK, FrameID.MAP)


def _frames_symbolic_times(n):
    ts = [integer(f"t{i}", 0, 10**9) for i in range(n)]
    for a, b in zip(ts, ts[1:]):
        assume(a < b)
    return ts, [FrameGroundTruth(t, str(i), [], transforms=[_ego()]) for i, t in enumerate(ts)]


class _Stub:
    pass


def plain_lookup(n, via_manager):
    ts, frames = _frames_symbolic_times(n)
    q = integer("query", -10**6, 10**9 + 10**6)
    tol = integer("tolerance", 0, 10**8)
    if via_manager:
        stub = _Stub()
        stub.ground_truth_frames = frames
        res = _EvaluationMangerBase.get_ground_truth_now_frame(stub, q, tol, False)
    else:
        res = get_now_frame(frames, q, tol)
    dists = [abs(q - t) for t in ts]
    dmin = L.Min(*dists)
    idx = None if res is None else [i for i, f in enumerate(frames) if f is res][0]
    parts = {}
    if res is None:
        parts["none_only_if_out_of_tolerance"] = dmin > tol
    else:
        parts["returned_is_closest"] = L.close(dists[idx], dmin, 0)
        parts["returned_within_tolerance"] = dists[idx] <= tol
    return Out(parts=parts, obs={"idx": idx})


def interp_gating(n, via_manager):
    """Neighbour search and tolerance gating; `interpolate_ground_truth_frames` replaced by a recorder (cut)."""
    ts, frames = _frames_symbolic_times(n)
    q = integer("query", -10**6, 10**9 + 10**6)
    tol = integer("tolerance", 0, 10**8)
    calls = []

    def recorder(before, after, t):
        calls.append((before, after, t))
        return ("interpolated", before, after, t)

    saved = DS.interpolate_ground_truth_frames
    DS.interpolate_ground_truth_frames = recorder
    try:
        if via_manager:
            stub = _Stub()
            stub.ground_truth_frames = frames
            res = _EvaluationMangerBase.get_ground_truth_now_frame(stub, q, tol, True)
        else:
            res = get_interpolated_now_frame(frames, q, tol)
    finally:
        DS.interpolate_ground_truth_frames = saved
    # spec: before = last frame at or before the query, after = first frame later than the query
    parts = {}
    conds = []
    for b in range(-1, n):  # index of `before` (-1: none); `after` is b+1 (n: none)
        a = b + 1
        here = L.And(True if b < 0 else ts[b] <= q, True if a >= n else q < ts[a])
        bw = False if b < 0 else (q - ts[b] <= tol)
        aw = False if a >= n else (ts[a] - q <= tol)
        if isinstance(res, tuple):
            ok = L.And(bw, aw, res[1] is frames[b] if b >= 0 else False, res[2] is frames[a] if a < n else False,
                       L.close(res[3], q, 0))
        elif res is None:
            ok = L.And(L.Not(bw), L.Not(aw))
        else:
            ok = L.Or(L.And(bw, L.Not(aw), res is frames[b] if b >= 0 else False),
                      L.And(aw, L.Not(bw), res is frames[a] if a < n else False))
        conds.append(L.Implies(here, ok))
    parts["neighbour_gating"] = L.And(*conds)
    kind = "interp" if isinstance(res, tuple) else ("none" if res is None else [i for i, f in enumerate(frames)
                                                                               if f is res][0])
    return Out(parts=parts, obs={"kind": kind})


def _obj(name, frame, pos, rot, t):
    return DynamicObject(t, frame, tuple(pos), rot, Shape(ShapeType.BOUNDING_BOX, (2.0, 4.0, 1.5)), (1.0, 0.0, 0.0),
                         1.0, Label(CAR, "car"), pointcloud_num=10, uuid=name)


def _wrap(a):
    return L.If(a > PI, a - 2 * PI, L.If(a <= -PI, a + 2 * PI, a))


def interp_exact(pattern, mode, obj_frame="map"):
    """Real interpolation between two frames 100 ms apart (+ an optional later frame).
    mode 'sym_time': query time symbolic, poses concrete; 'sym_pose': poses symbolic, query on a grid;
    'both': everything symbolic (non-linear)."""
    T1, T2, T3 = 1_000_000, 1_100_000, 1_350_000
    sym_pose = mode in ("sym_pose", "both")
    if mode == "sym_pose":
        q = choose("query", [T1, T1 + 25_000, T1 + 50_000, T2 - 1, T2])
    else:
        q = integer("query", T1 - 150_000, T3 + 150_000)
    tol = integer("tolerance", 0, 400_000)

    def P(name, default):
        return [real(f"{name}_{c}", -100, 100) if sym_pose else float(v) for c, v in zip("xy", default)] + [0.5]

    def Y(name, default):
        return real(f"{name}_yaw", lo=-PI, hi=PI, lo_strict=True) if sym_pose else build.const(Fraction(default))

    ids1, ids2 = pattern
    pose1 = {u: (P(f"{u}1", (3.0 + k, -2.0)), Y(f"{u}1", 0.25 + k)) for k, u in enumerate(ids1)}
    pose2 = {u: (P(f"{u}2", (4.5 + k, 1.0)), Y(f"{u}2", -2.75 + k)) for k, u in enumerate(ids2)}
    if sym_pose:
        for u in set(ids1) & set(ids2):  # exactly opposite headings have no unique shortest arc
            dd = abs(pose2[u][1] + (PI / 2 if obj_frame != "map" else 0) - pose1[u][1])
            dd = L.If(dd > 2 * PI, dd - 2 * PI, dd)
            assume(L.Or(dd < PI - Fraction(1, 1000), L.And(dd > PI + Fraction(1, 1000), dd < 2 * PI - Fraction(1, 1000))))
    e1 = [real("ego1_x", -100, 100) if sym_pose else 10.0, 20.0, 0.0]
    e2 = [real("ego2_x", -100, 100) if sym_pose else 12.0, 21.0, 0.0]
    ofr = FrameID.MAP if obj_frame == "map" else FrameID.BASE_LINK
    f1 = FrameGroundTruth(T1, "0", [_obj(u, ofr, p, build.mkrot_theta(y), T1) for u, (p, y) in pose1.items()],
                          transforms=[_ego(e1, (1, 0, 0, 0))])
    f2 = FrameGroundTruth(T2, "1", [_obj(u, ofr, p, build.mkrot_theta(y), T2) for u, (p, y) in pose2.items()],
                          transforms=[_ego(e2, (1, 0, 0, 1))])
    if obj_frame != "map":
        # ego-frame objects are interpolated in global coordinates: the oracle works on their global poses
        # (frame 1: ego yaw 0 at e1; frame 2: ego yaw +90 deg at e2)
        pose1 = {u: ([p[0] + e1[0], p[1] + e1[1], p[2]], y) for u, (p, y) in pose1.items()}
        pose2 = {u: ([-p[1] + e2[0], p[0] + e2[1], p[2]], _wrap(y + PI / 2)) for u, (p, y) in pose2.items()}
    f3 = FrameGroundTruth(T3, "2", [], transforms=[_ego(e2, (1, 0, 0, 1))])
    frames = [f1, f2, f3]
    snapshot = [(id(f), [id(o) for o in f.objects], f.unix_time) for f in frames]
    ego_before = [(id(f.transforms[EGO2MAP]), [v for v in f.transforms[EGO2MAP].position]) for f in frames]
    res = get_interpolated_now_frame(frames, q, tol)

    parts = {}
    parts["inputs_untouched"] = all(id(f) == i and [id(o) for o in f.objects] == objs and f.unix_time == t
                                    for f, (i, objs, t) in zip(frames, snapshot))
    parts["loaded_ego_poses_untouched"] = L.And(*[
        L.And(id(f.transforms[EGO2MAP]) == i, *[L.close(a, b, 0) for a, b in zip(f.transforms[EGO2MAP].position, pos)])
        for f, (i, pos) in zip(frames, ego_before)])
    # the same query again on the same frame list gives the same answer (no state carried between lookups)
    res2 = get_interpolated_now_frame(frames, q, tol)
    same_kind = (res is None) == (res2 is None) and (res is None or any(res is f for f in frames) == any(res2 is f for f in frames))
    if same_kind and res is not None and not any(res is f for f in frames):
        o1 = sorted(((o.uuid, list(o.state.position)) for o in res.objects), key=lambda t: t[0])
        o2 = sorted(((o.uuid, list(o.state.position)) for o in res2.objects), key=lambda t: t[0])
        same_kind = len(o1) == len(o2) and L.And(*[L.And(a[0] == b[0], *[L.close(x, y, 1e-9) for x, y in zip(a[1], b[1])])
                                                   for a, b in zip(o1, o2)],
                                                 *[L.close(x, y, 1e-9) for x, y in zip(res.transforms[EGO2MAP].position,
                                                                                       res2.transforms[EGO2MAP].position)])
    elif same_kind and res is not None:
        same_kind = res is res2
    parts["repeated_lookup_same_answer"] = same_kind
    # which neighbours does the specification select?
    times = [T1, T2, T3]
    between = L.And(q >= T1, q < T2)
    both12 = L.And(between, q - T1 <= tol, T2 - q <= tol)
    kind = "none" if res is None else ("frame%d" % frames.index(res) if any(res is f for f in frames) else "interp")
    if kind == "interp":
        is12 = res.frame_name == "0" and len(res.objects) >= 0
        if not symx.L._sym(between) and not between:
            # interpolation between f2 and f3 (no objects in f3): only gating and stamping are asserted
            parts["stamped_with_query_time"] = L.close(res.unix_time, q, 0)
        else:
            parts["interpolates_only_when_both_in_tolerance"] = L.Implies(between, both12)
            parts["stamped_with_query_time"] = L.close(res.unix_time, q, 0)
            alpha = (q - T1) / (T2 - T1)
            got = {o.uuid: o for o in res.objects}
            conds = [len(got) == len(res.objects)]
            for u in set(ids1) | set(ids2):
                if u not in got:
                    conds.append(False)
                    continue
                o = got[u]
                conds.append(o.frame_id == "map" or u not in (set(ids1) & set(ids2)) and o.frame_id == ofr)
                yaw = o.state.orientation.yaw_pitch_roll[0]
                if u in ids1 and u in ids2:
                    (p1, y1), (p2, y2) = pose1[u], pose2[u]
                    exp_p = [a + (b - a) * alpha for a, b in zip(p1, p2)]
                    d = _wrap(y2 - y1)
                    exp_y = _wrap(y1 + alpha * d)
                    conds.append(L.And(*[L.close(g, e, 1e-7) for g, e in zip(o.state.position, exp_p)]))
                    # shortest arc (angles compared modulo 2 pi)
                    dy = yaw - exp_y
                    conds.append(L.Or(L.close(dy, 0, 1e-7), L.close(dy, 2 * PI, 1e-7), L.close(dy, -2 * PI, 1e-7)))
                    conds.append(L.close(o.unix_time, q, 0))
                else:
                    p, y = pose1[u] if u in ids1 else pose2[u]
                    conds.append(L.And(*[L.close(g, e, 1e-7) for g, e in zip(o.state.position, p)]))
                    conds.append(L.close(yaw, y, 1e-7))
            parts["objects_on_segment_and_arc"] = L.Implies(between, L.And(*conds))
            ego = res.transforms[EGO2MAP]
            exp_e = [a + (b - a) * alpha for a, b in zip(e1, e2)]
            parts["ego_translation_on_segment"] = L.Implies(
                between, L.And(*[L.close(g, e, 1e-7) for g, e in zip(ego.position, exp_e)]))
    else:
        # a single neighbour or nothing: decided by the tolerance gating of the specification
        spec = []
        for b in range(-1, 3):
            a = b + 1
            here = L.And(True if b < 0 else times[b] <= q, True if a >= 3 else q < times[a])
            bw = False if b < 0 else (q - times[b] <= tol)
            aw = False if a >= 3 else (times[a] - q <= tol)
            if res is None:
                ok = L.And(L.Not(bw), L.Not(aw))
            else:
                ok = L.Or(L.And(bw, L.Not(aw), b >= 0 and res is frames[b]),
                          L.And(aw, L.Not(bw), a < 3 and res is frames[a]))
            spec.append(L.Implies(here, ok))
        parts["single_neighbour_or_nothing"] = L.And(*spec)
    obs = {"kind": kind}
    if kind == "interp":
        obs["objects"] = sorted((o.uuid, list(o.state.position)) for o in res.objects)
    return Out(parts=parts, obs=obs)


def _extras():
    return [(GEO, "int", sym_int)]


TILTS = {"slope": (20, 1, 2, 3), "bank": (9, -2, 1, 0), "general": (1, 2, -1, 3), "yaw_3_4_5": (2, 0, 0, 1)}


def _m(q):
    return build.models.q_to_matrix(tuple(Fraction(v) for v in q))


def _mv(M, v):
    return [M[i][0] * v[0] + M[i][1] * v[1] + M[i][2] * v[2] for i in range(3)]


def _mm(A, B):
    return [[A[i][0] * B[0][j] + A[i][1] * B[1][j] + A[i][2] * B[2][j] for j in range(3)] for i in range(3)]


def interp_tilted(ego_rot, rot_a, rot_b, rot_c):
    """Ego-frame objects seen from an ego whose attitude has pitch / roll (a slope, a banked road): the ego keeps its
    attitude and translates; object a is in both neighbours with an unchanged heading, b only in the earlier, c only in
    the later one.  Every rotation is exact; the oracle works on the global poses R_e p + t_e and R_e R_o."""
    T1, T2 = 1_000_000, 1_100_000
    q = integer("query", T1, T2 - 1)
    tol = 200_000
    Re = _m(TILTS[ego_rot])
    e1 = [real("ego1_x", -100, 100), 20.0, 1.0]
    e2 = [real("ego2_x", -100, 100), 21.0, 1.5]
    pa1 = [real("a1_x", -50, 50), real("a1_y", -50, 50), 0.5]
    pa2 = [real("a2_x", -50, 50), real("a2_y", -50, 50), 0.25]
    pb, pc = [3.0, real("b_y", -50, 50), 0.0], [real("c_x", -50, 50), -4.0, 0.75]
    B = FrameID.BASE_LINK
    f1 = FrameGroundTruth(T1, "0", [_obj("a", B, pa1, build.mkrot(TILTS[rot_a]), T1), _obj("b", B, pb, build.mkrot(TILTS[rot_b]), T1)],
                          transforms=[_ego(e1, TILTS[ego_rot])])
    f2 = FrameGroundTruth(T2, "1", [_obj("a", B, pa2, build.mkrot(TILTS[rot_a]), T2), _obj("c", B, pc, build.mkrot(TILTS[rot_c]), T2)],
                          transforms=[_ego(e2, TILTS[ego_rot])])
    res = get_interpolated_now_frame([f1, f2], q, tol)
    parts = {"interpolated_frame": res is not None and res is not f1 and res is not f2}
    if parts["interpolated_frame"]:
        alpha = (q - T1) / (T2 - T1)
        got = {o.uuid: o for o in res.objects}
        parts["objects_kept"] = sorted(got) == ["a", "b", "c"] and len(res.objects) == 3
        parts["stamped_with_query_time"] = L.close(res.unix_time, q, 0)

        def glob(p, e):
            return [x + t for x, t in zip(_mv(Re, p), e)]

        def pose_is(o, pos, R):
            M = o.state.orientation.rotation_matrix
            return L.And(*[L.close(g, w, 1e-7) for g, w in zip(o.state.position, pos)],
                         *[L.close(M[i][j], R[i][j], 1e-7) for i in range(3) for j in range(3)])

        if parts["objects_kept"]:
            g1, g2 = glob(pa1, e1), glob(pa2, e2)
            parts["a_on_segment_with_its_heading"] = L.And(
                got["a"].frame_id == "map", pose_is(got["a"], [u + (v - u) * alpha for u, v in zip(g1, g2)], _mm(Re, _m(TILTS[rot_a]))))
            parts["b_kept_at_its_global_pose"] = pose_is(got["b"], glob(pb, e1), _mm(Re, _m(TILTS[rot_b])))
            parts["c_kept_at_its_global_pose"] = pose_is(got["c"], glob(pc, e2), _mm(Re, _m(TILTS[rot_c])))
        ego = res.transforms[EGO2MAP]
        parts["ego_on_segment_with_its_attitude"] = L.And(
            *[L.close(g, a + (b - a) * alpha, 1e-7) for g, a, b in zip(ego.position, e1, e2)],
            *[L.close(ego.rotation.rotation_matrix[i][j], Re[i][j], 1e-7) for i in range(3) for j in range(3)])
    return Out(parts=parts, obs={"kind": "interp" if parts["interpolated_frame"] else "other",
                                 "n": len(res.objects) if res is not None else -1})


def obligations(pid, tier):
    quick = tier == "quick"
    ns = [1, 2, 3] if quick else [1, 2, 3, 4, 5, 6]
    patterns = [(("a",), ("a",)), (("a", "b"), ("a",)), (("a",), ("a", "c")), (("a", "b"), ("c", "a")), ((), ("c",))]
    modes = ["sym_time", "sym_pose"] + ([] if quick else ["both"])
    return [
        Obligation("plain_lookup", plain_lookup, cases=[dict(n=n, via_manager=m) for n in ns for m in (False, True)],
                   desc="get_now_frame returns a closest frame iff it is within tolerance"),
        Obligation("interp_gating", interp_gating, cases=[dict(n=n, via_manager=m) for n in ns for m in (False, True)],
                   desc="get_interpolated_now_frame: neighbour search and tolerance gating (interpolation stubbed)"),
        Obligation("interp_exact", interp_exact, extras=_extras,
                   cases=[dict(pattern=p, mode=m, obj_frame=fr) for p in patterns for m in modes
                          for fr in (("map", "base_link") if (not quick or p == patterns[1]) else ("map",))],
                   desc="interpolated frame: query stamp, straight segment / shortest arc, appear/disappear, neighbours kept"),
        Obligation("interp_tilted", interp_tilted, extras=_extras,
                   cases=[dict(ego_rot=e, rot_a=a, rot_b=b, rot_c=c) for e, a, b, c in
                          ([("slope", "yaw_3_4_5", "general", "bank"), ("general", "bank", "yaw_3_4_5", "slope")] if quick else
                           [("slope", "yaw_3_4_5", "general", "bank"), ("general", "bank", "yaw_3_4_5", "slope"),
                            ("bank", "general", "slope", "yaw_3_4_5"), ("yaw_3_4_5", "slope", "bank", "general")])],
                   desc="ego-frame objects under an ego attitude with pitch/roll (exact 3-D rotations): global poses of kept "
                        "and interpolated objects, ego pose on the segment"),
    ]


def meta(pid):
    return {
        "functions": ["common.dataset.get_now_frame", "common.dataset.get_interpolated_now_frame",
                      "common.dataset.interpolate_ground_truth_frames", "common.dataset.convert_objects_to_global",
                      "common.geometry.interpolate_object_list/interpolate_object/interpolate_dynamic_object/"
                      "interpolate_state/interpolate_list/interpolate_quaternion/interpolate_homogeneous_matrix",
                      "manager._evaluation_manager_base._EvaluationMangerBase.get_ground_truth_now_frame"],
        "files": ["common/dataset.py", "common/geometry.py", "manager/_evaluation_manager_base.py"],
        "bounds": {"quick": "lookup/gating: 1..3 frames, strictly increasing symbolic integer timestamps, symbolic query and "
                            "tolerance; interpolation: 3 frames at fixed stamps (100 ms / 250 ms apart), <= 2 objects per "
                            "frame with 5 appear/disappear patterns, either query time symbolic (poses concrete) or poses "
                            "symbolic (query on a 5-point grid incl. both neighbour stamps); tilted ego attitude (exact 3-D rotations) "
                            "with ego-frame objects, symbolic positions and query time",
                   "thorough": "1..6 frames; additionally poses and query time symbolic at once (non-linear)"},
        "outside": ["slerp between two *distinct* rotations with roll/pitch (3-D rotations are covered where the interpolated "
                    "heading is an end point: unchanged heading, objects present in one neighbour, constant ego attitude)", "raw sensor data copying", "unordered frame lists",
                    "2-D objects (interpolate_dynamic_object2d)"],
        "stand_ins": ["pyquaternion -> Rot (angle mode; slerp = shortest-arc linear interpolation of the yaw)",
                      "interp_gating: interpolate_ground_truth_frames replaced by a recorder (recorded cut)",
                      "module-level int() in common.geometry = identity on symbolic integers"],
        "assumptions": ["frames are ordered by strictly increasing time stamp (documented input contract)",
                        "objects carry a velocity tuple (interpolate_state requires it)",
                        "the two yaws of an interpolated object are not within 1e-3 rad of being opposite (no unique "
                        "shortest arc) nor of a full turn apart"],
    }
