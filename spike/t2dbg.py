import sys
sys.argv=['t2.py','0','p345','0']
import symx, time
orig=symx.Ctx.check
def chk(self,*a):
    t=time.time(); r=orig(self,*a); dt=time.time()-t
    if dt>1: print("slow check",round(dt,1),r, flush=True)
    return r
symx.Ctx.check=chk
orig_explore=symx.explore
def ex(fn, timeout_ms=10000, max_paths=100000):
    return orig_explore(fn, timeout_ms=3000, max_paths=60)
symx.explore=ex
exec(open('t2.py').read())
