"""C13 - scene scores pool the frame results; frame evaluation is history-independent."""
import atexit
import shutil
import tempfile

from perception_eval.common.dataset import FrameGroundTruth
from perception_eval.config import PerceptionEvaluationConfig
from perception_eval.evaluation.result.perception_frame_config import (CriticalObjectFilterConfig,
                                                                       PerceptionPassFailConfig)
import perception_eval.manager._evaluation_manager_base as MB
import perception_eval.manager.perception_evaluation_manager as MM

from .. import symx
from ..runner import Obligation, Out
from ..symx import L, assume, choose, real
from . import scene as S
from .c04_ap import oracle_ap
from .scene import CAR, PED

TARGETS = [CAR, PED]
_TMP = []


def _tmpdir():
    if not _TMP:
        _TMP.append(tempfile.mkdtemp(prefix="verif_c13_"))
        atexit.register(lambda: shutil.rmtree(_TMP[0], ignore_errors=True))
    return _TMP[0]


class _NoViz:
    def __init__(self, *a, **k):
        pass


class Env:
    """environment stubs (dataset loader, visualizers), applied in both modes by the harness itself"""

    def __init__(self, frames):
        self.frames = frames

    def __enter__(self):
        self.saved = (MB.load_all_datasets, MM.PerceptionVisualizer3D, MM.PerceptionVisualizer2D)
        MB.load_all_datasets = lambda **kw: self.frames
        MM.PerceptionVisualizer3D = _NoViz
        MM.PerceptionVisualizer2D = _NoViz
        return self

    def __exit__(self, *exc):
        MB.load_all_datasets, MM.PerceptionVisualizer3D, MM.PerceptionVisualizer2D = self.saved


def _config(task="detection"):
    d = dict(evaluation_task=task, target_labels=["car", "pedestrian"], max_x_position=200.0, max_y_position=200.0,
             min_point_numbers=[0, 0], label_prefix="autoware", center_distance_thresholds=[[1.0, 1.0]],
             plane_distance_thresholds=[[2.0, 2.0]], iou_2d_thresholds=None, iou_3d_thresholds=None)
    return PerceptionEvaluationConfig([], "base_link", _tmpdir(), d)


def _manager(frames, task="detection"):
    cfg = _config(task)
    with Env(frames):
        return MM.PerceptionEvaluationManager(cfg), cfg


def _filters(cfg, max_x):
    crit = CriticalObjectFilterConfig(cfg, ["car", "pedestrian"], max_x_position_list=[max_x, max_x],
                                      max_y_position_list=[100.0, 100.0])
    pf = PerceptionPassFailConfig(cfg, ["car", "pedestrian"], matching_threshold_list=[2.0, 2.0])
    return crit, pf


def _summary(fr, names):
    p = fr.pass_fail_result

    def pair(r):
        return (names[id(r.estimated_object)], names.get(id(r.ground_truth_object)) if r.ground_truth_object is not None
                else None)

    return {"results": sorted(map(pair, fr.object_results), key=str), "tp": sorted(map(pair, p.tp_object_results), key=str),
            "fp": sorted(map(pair, p.fp_object_results), key=str), "fn": sorted(names[id(x)] for x in p.fn_objects),
            "gt": sorted(names[id(x)] for x in fr.frame_ground_truth.objects)}


def _scores(ms):
    out = [ms.num_ground_truth]
    for mp in ms.maps:
        out += [mp.map] + [a.ap for a in mp.aps]
    return out


def _close_all(a, b):
    inf = float("inf")
    conds = [len(a) == len(b)]
    for x, y in zip(a, b):
        xi, yi = (not symx.is_sym(x)) and x == inf, (not symx.is_sym(y)) and y == inf
        conds.append(xi == yi if (xi or yi) else L.close(x, y, 1e-7))
    return L.And(*conds)


def _frame(pose, k, n_est, n_gt, sym):
    """frame k: ground truths on the lane at 10, 30 (+ symbolic shift); estimates near them"""
    gts, ests = [], []
    for j in range(n_gt):
        gx = 10.0 + 20.0 * j + (real(f"f{k}_g{j}_shift", -3, 3) if sym else 0.0)
        gts.append(S.SObj(f"f{k}g{j}", pose, CAR, gx, 0.0, is_gt=True, unix_time=k * 100000))
    for i in range(n_est):
        base = 10.0 + 20.0 * i
        ex = base + (real(f"f{k}_e{i}_offset", -3, 3) if sym else 0.3)
        ests.append(S.SObj(f"f{k}e{i}", pose, CAR, ex, 0.0, conf=[0.9, 0.6, 0.75, 0.5][2 * k + i], unix_time=k * 100000))
    return ests, gts


def pooling(n0, m0, n1, m1):
    """scene result = score of the pooled frame results; one-frame scene = that frame; order independent."""
    pose = S.Pose("base_link", "id")
    f = [_frame(pose, 0, n0, m0, True), _frame(pose, 1, n1, m1, True)]
    names = {id(o.obj): o.name for fr in f for side in fr for o in side}
    gtf = [FrameGroundTruth(k * 100000, str(k), [g.obj for g in f[k][1]], transforms=pose.transforms) for k in range(2)]
    mgr, cfg = _manager(gtf)
    crit, pf = _filters(cfg, 150.0)
    parts = {}
    r0 = mgr.add_frame_result(0, mgr.ground_truth_frames[0], [e.obj for e in f[0][0]], crit, pf)
    one = mgr.get_scene_result()
    parts["one_frame_scene_equals_frame"] = _close_all(_scores(one), _scores(r0.metrics_score))
    r1 = mgr.add_frame_result(100000, mgr.ground_truth_frames[1], [e.obj for e in f[1][0]], crit, pf)
    scene = mgr.get_scene_result()
    parts["ground_truth_counts_add_up"] = scene.num_ground_truth == r0.metrics_score.num_ground_truth + r1.metrics_score.num_ground_truth \
        and scene.num_ground_truth == m0 + m1
    # oracle: AP of the pooled ranking (centre-distance metric, threshold 1.0, label car)
    rows = []
    for k, fr in enumerate((r0, r1)):
        so = {o.name: o for side in f[k] for o in side}
        for r in fr.object_results:
            e = so[names[id(r.estimated_object)]]
            g = so[names[id(r.ground_truth_object)]] if r.ground_truth_object is not None else None
            rows.append((e.conf, L.And(g is not None, S.dist2(e, g) < 1.0) if g is not None else False))
    rows.sort(key=lambda t: -t[0])
    exp = oracle_ap([L.If(tp, 1, 0) for _, tp in rows], m0 + m1)
    got = scene.maps[0].aps[0].ap
    parts["scene_ap_is_pooled_ap"] = (got == float("inf")) if exp is None else L.close(got, exp, 1e-9)
    # frames added in the other order
    mgr2, cfg2 = _manager(gtf)
    mgr2.add_frame_result(100000, mgr2.ground_truth_frames[1], [e.obj for e in f[1][0]], crit, pf)
    mgr2.add_frame_result(0, mgr2.ground_truth_frames[0], [e.obj for e in f[0][0]], crit, pf)
    parts["order_independent"] = _close_all(_scores(mgr2.get_scene_result()), _scores(scene))
    return Out(parts=parts, obs={"scene": _scores(scene)})


def history_independence(prefix, frame):
    """evaluating a frame after `prefix` (earlier calls on the same manager) = evaluating it on a fresh manager."""
    pose = S.Pose(frame, "yaw_3_4_5" if frame == "map" else "id")
    near = S.SObj("g_near", pose, CAR, 5.0 + real("near_shift", -2, 2), 0.0, is_gt=True)
    far = S.SObj("g_far", pose, CAR, 50.0 + real("far_shift", -2, 2), 0.0, is_gt=True)
    e0 = S.SObj("e_near", pose, CAR, 5.0 + real("e_near_offset", -3, 3), 0.0, conf=0.9)
    e1 = S.SObj("e_far", pose, CAR, 50.0 + real("e_far_offset", -3, 3), 0.0, conf=0.8)
    e2 = S.SObj("e_bus", pose, S.BUS, 30.0, 0.0, conf=0.7)  # not a target label: dropped by the manager's own filter
    names = {id(o.obj): o.name for o in (near, far, e0, e1, e2)}
    # the other frame is seen from another ego pose (the critical / pass-fail config objects are shared by all calls)
    pose2 = S.Pose(frame, "yaw_neg" if frame == "map" else "id", tag="ego_other")
    other = S.SObj("g_other", pose2, CAR, 20.0, 0.0, is_gt=True, unix_time=100000)
    names[id(other.obj)] = "g_other"

    def dataset():
        return [FrameGroundTruth(0, "0", [near.obj, far.obj], transforms=pose.transforms),
                FrameGroundTruth(100000, "1", [other.obj], transforms=pose2.transforms)]

    estimates = [e0.obj, e2.obj, e1.obj]
    # reference: the call on a fresh manager
    ref_mgr, cfg = _manager(dataset())
    ref = ref_mgr.add_frame_result(0, ref_mgr.ground_truth_frames[0], list(estimates), *_filters(cfg, 120.0))
    wide = _filters(cfg, 120.0)   # these config objects are reused by every call on the second manager
    narrow = _filters(cfg, 10.0)
    ref_sum, ref_scores = _summary(ref, names), _scores(ref.metrics_score)
    # the same call after a prefix of other evaluations on one manager
    mgr, _ = _manager(dataset())
    gt0 = mgr.ground_truth_frames[0]
    before = list(gt0.objects)
    for step in prefix:
        if step == "narrow":
            mgr.add_frame_result(0, mgr.ground_truth_frames[0], list(estimates), *narrow)
        elif step == "wide":
            mgr.add_frame_result(0, mgr.ground_truth_frames[0], list(estimates), *wide)
        elif step == "other":
            mgr.add_frame_result(100000, mgr.ground_truth_frames[1], [], *wide)
        elif step == "scene":
            mgr.get_scene_result()
    given = list(estimates)
    res = mgr.add_frame_result(0, mgr.ground_truth_frames[0], given, *wide)
    s, sc = _summary(res, names), _scores(res.metrics_score)
    parts = {f"same_{k}": s[k] == ref_sum[k] for k in s}
    parts["same_scores"] = _close_all(sc, ref_scores)
    parts["estimate_list_untouched"] = len(given) == 3 and given[0] is e0.obj and given[1] is e2.obj and given[2] is e1.obj
    after = mgr.ground_truth_frames[0].objects
    parts["dataset_untouched"] = mgr.ground_truth_frames[0] is gt0 and len(after) == len(before) and all(
        a is b for a, b in zip(after, before))
    return Out(parts=parts, obs={"after_prefix": s, "fresh": ref_sum})


def _tracking_scores(fr):
    out = []
    for ts in fr.metrics_score.tracking_scores:
        for c in ts.clears:
            out += [c.tp, c.fp, c.id_switch, c.mota, c.motp, c.tp_matching_score]
    return out


def tracking_predecessor(prefix):
    """tracking scores of frame B depend on B and the immediately preceding frame A only: evaluating [.., A, B] on one
    manager gives B the scores it gets on a fresh manager that saw just [A, B]; ID switches are counted against A."""
    pose = S.Pose("base_link", "id")
    track_b = choose("b_estimate_track", ["t1", "t2"])
    spec = {"A": (0, "t1"), "B": (100000, track_b), "C": (200000, "t3")}
    objs, frames = {}, []
    for k, (name, (t, track)) in enumerate(spec.items()):
        g = S.SObj(f"g{name}", pose, CAR, 10.0 + 2.0 * k, 0.0, is_gt=True, unix_time=t, uuid="gt_track")
        e = S.SObj(f"e{name}", pose, CAR, 10.0 + 2.0 * k + real(f"e{name}_offset", -3, 3), 0.0, conf=0.9 - 0.1 * k,
                   unix_time=t, uuid=track)
        objs[name] = (e, g, t)
        frames.append(FrameGroundTruth(t, str(k), [g.obj], transforms=pose.transforms))
    idx = {"A": 0, "B": 1, "C": 2}

    def run(seq, keep=None):
        mgr, cfg = _manager(frames, task="tracking")
        filt = _filters(cfg, 150.0)
        res = None
        for name in seq:
            e, g, t = objs[name]
            res = mgr.add_frame_result(t, mgr.ground_truth_frames[idx[name]], [e.obj], *filt)
            if keep is not None:
                keep.append(res)
        return res, mgr

    per_frame = []
    ref, ref_mgr = run(["A", "B"], keep=per_frame)
    got, mgr = run(list(prefix) + ["A", "B"])
    a, b = _tracking_scores(ref), _tracking_scores(got)
    parts = {"same_tracking_scores_after_prefix": _close_all(b, a),
             "same_detection_scores_after_prefix": _close_all(_scores(got.metrics_score), _scores(ref.metrics_score))}
    # oracle for the centre-distance CLEAR (threshold 1.0, label car), as CLEAR defines it: a pairing that continues a
    # TP of frame A (same estimate id, same ground-truth track) inherits A's TP; otherwise B's estimate is a TP iff it is
    # within 1 m, and that TP is an ID switch iff A had a TP on the same ground-truth track under another estimate id
    eA, gA, _ = objs["A"]
    eB, gB, _ = objs["B"]
    tp_a, tp_b = S.dist2(eA, gA) < 1.0, S.dist2(eB, gB) < 1.0
    same_track = track_b == "t1"
    c = ref.metrics_score.tracking_scores[0].clears[0]
    parts["tp_oracle"] = L.Iff(c.tp == 1, L.Or(L.And(same_track, tp_a), tp_b))
    parts["id_switch_iff_track_changed"] = L.Iff(c.id_switch == 1, L.And(tp_a, tp_b, not same_track))
    parts["fp_is_the_rest"] = L.close(c.tp + c.fp, 1, 1e-9)
    # scene-level tracking score = CLEAR of the pooled frames [A, B]: the first frame is scored on its own, every later
    # frame against its predecessor - i.e. the sums of the per-frame values; a one-frame scene reproduces its frame
    cA = per_frame[0].metrics_score.tracking_scores[0].clears[0]
    sc = ref_mgr.get_scene_result().tracking_scores[0].clears[0]
    parts["scene_tracking_counts_are_frame_sums"] = L.And(L.close(sc.tp, cA.tp + c.tp, 1e-9), L.close(sc.fp, cA.fp + c.fp, 1e-9),
                                                          sc.id_switch == cA.id_switch + c.id_switch,
                                                          sc.objects_results_num == 2)
    one_mgr = run(["A"])[1]
    s1 = one_mgr.get_scene_result().tracking_scores[0].clears[0]
    parts["one_frame_scene_reproduces_frame_tracking_score"] = L.And(
        L.close(s1.tp, cA.tp, 1e-9), L.close(s1.fp, cA.fp, 1e-9), s1.id_switch == cA.id_switch, s1.objects_results_num == 1,
        L.Iff(s1.tp == 1, tp_a))
    return Out(parts=parts, obs={"ref": a, "after_prefix": b})


def obligations(pid, tier):
    quick = tier == "quick"
    pool = [dict(n0=1, m0=1, n1=2, m1=1), dict(n0=1, m0=1, n1=1, m1=2), dict(n0=2, m0=1, n1=1, m1=1),
            dict(n0=0, m0=2, n1=1, m1=1), dict(n0=1, m0=1, n1=0, m1=1), dict(n0=1, m0=0, n1=1, m1=1)]
    if not quick:
        pool += [dict(n0=2, m0=2, n1=2, m1=2), dict(n0=0, m0=1, n1=2, m1=2)]
    prefixes = [[], ["wide"], ["narrow"], ["other"], ["scene"], ["narrow", "wide"], ["wide", "scene", "narrow"]]
    if not quick:
        prefixes += [["other", "narrow", "scene"], ["narrow", "narrow"], ["wide", "other", "wide"]]
    hist = [dict(prefix=p, frame=f) for p in prefixes for f in (("base_link",) if (quick and len(p) > 1) else ("base_link", "map"))]
    trk = [dict(prefix=p) for p in ([[], ["C"], ["B"], ["A", "C"]] if quick else [[], ["C"], ["B"], ["A", "C"], ["B", "C"],
                                                                               ["C", "B", "A"], ["B", "A", "B"]])]
    return [
        Obligation("tracking_predecessor", tracking_predecessor, cases=trk, extras=S.frame_extras,
                   desc="tracking task: frame B's CLEAR scores after any prefix of other frames = those after [A, B] on a "
                        "fresh manager (only the immediately preceding frame matters); TP / ID-switch oracle"),
        Obligation("pooling", pooling, cases=pool, extras=S.frame_extras,
                   desc="get_scene_result: GT counts add up, one-frame scene = frame, scene AP = AP of pooled results, "
                        "order-independent"),
        Obligation("history_independence", history_independence, cases=hist, extras=S.frame_extras,
                   desc="add_frame_result gives the same result whatever was evaluated before on the manager; caller's "
                        "estimate list and the loaded dataset are not modified"),
    ]


def meta(pid):
    return {
        "functions": ["manager.perception_evaluation_manager.PerceptionEvaluationManager.__init__/add_frame_result/"
                      "_filter_objects/get_scene_result", "manager._evaluation_manager_base._EvaluationMangerBase.__init__",
                      "config.perception_evaluation_config.PerceptionEvaluationConfig", "evaluation.result."
                      "perception_frame_result.PerceptionFrameResult", "evaluation.metrics.metrics.MetricsScore",
                      "evaluation.matching.objects_filter.*", "evaluation.result.object_result.get_object_results"],
        "files": ["manager/perception_evaluation_manager.py", "manager/_evaluation_manager_base.py",
                  "evaluation/result/perception_frame_result.py", "evaluation/metrics/metrics.py",
                  "evaluation/matching/objects_filter.py", "config/perception_evaluation_config.py"],
        "bounds": {"quick": "pooling: 2 frames with <= 2 estimates and <= 2 ground truths, positions of the first frame "
                            "symbolic; history independence: one 2x2 frame (symbolic positions) evaluated after 7 call "
                            "prefixes of length <= 3 made of {same frame with a narrow / wide critical filter, another "
                            "frame, scene-score query}, ego and map frame; tracking: three 1x1 frames (symbolic estimate "
                            "offsets, B's estimate keeps or changes its track id), frame B evaluated after A following 4 "
                            "prefixes of other frames",
                   "thorough": "2x2 frames in both pooling frames; 10 prefixes"},
        "outside": ["longer histories", "tracking scenes with more than one object per frame (C05 covers CLEAR itself)",
                    "real dataset loading (C16)"],
        "stand_ins": ["environment: load_all_datasets returns the frames built by the harness, the two visualizer classes are "
                      "empty; numpy proxy, Rot, ConvexPolygon, lazy matching wrappers"],
        "assumptions": ["distinct confidences", "floats modelled as exact reals"],
    }
