"""C11 - classification pairs objects by identity and scores them by label agreement."""
from perception_eval.common.evaluation_task import EvaluationTask
from perception_eval.common.label import AutowareLabel, Label, TrafficLightLabel
from perception_eval.common.object2d import DynamicObject2D
from perception_eval.common.schema import FrameID
import perception_eval.evaluation.result.object_result as OR
from perception_eval.evaluation.matching.objects_filter import divide_objects, divide_objects_to_num
from perception_eval.evaluation.metrics.classification.accuracy import ClassificationAccuracy
from perception_eval.evaluation.metrics.classification.classification_metrics_score import ClassificationMetricsScore

from .. import symx
from ..runner import Obligation, Out
from ..symx import L, assume, choose, integer

TL = [TrafficLightLabel.GREEN, TrafficLightLabel.RED, TrafficLightLabel.YELLOW]
AW = [AutowareLabel.CAR, AutowareLabel.PEDESTRIAN, AutowareLabel.BICYCLE]
CAMS = {"tl": [FrameID.CAM_TRAFFIC_LIGHT_NEAR, FrameID.CAM_TRAFFIC_LIGHT_FAR], "aw": [FrameID.CAM_FRONT, FrameID.CAM_BACK]}


class O:
    def __init__(self, name, labels, cams, nlabels):
        self.name = name
        self.label = choose(name + "_label", labels[:nlabels])
        self.cam = choose(name + "_camera", cams)
        self.uid = integer(name + "_uuid", 0, 5)
        self.obj = DynamicObject2D(0, self.cam, 0.9, Label(self.label, self.label.value), roi=None, uuid=self.uid)


def _scene(family, n, m, nlabels, ncams):
    labels = TL if family == "tl" else AW
    cams = CAMS[family][:ncams]
    ests = [O(f"e{i}", labels, cams, nlabels) for i in range(n)]
    gts = [O(f"g{j}", labels, cams, nlabels) for j in range(m)]
    for side in (ests, gts):  # the statement's precondition: unique ids per side and camera
        for i in range(len(side)):
            for j in range(i + 1, len(side)):
                if side[i].cam == side[j].cam:
                    assume(side[i].uid != side[j].uid)
    return ests, gts


def _pairs(res, ests, gts):
    ei = {id(o.obj): k for k, o in enumerate(ests)}
    gi = {id(o.obj): k for k, o in enumerate(gts)}
    out, foreign = [], False
    for r in res:
        i = ei.get(id(r.estimated_object))
        j = gi.get(id(r.ground_truth_object)) if r.ground_truth_object is not None else None
        if i is None or (r.ground_truth_object is not None and j is None):
            foreign = True
        out.append((i, j))
    return out, foreign


def generic_ids(n, m, nlabels, ncams):
    ests, gts = _scene("aw", n, m, nlabels, ncams)
    e_in, g_in = [o.obj for o in ests], [o.obj for o in gts]
    res = OR.get_object_results(EvaluationTask.CLASSIFICATION2D, e_in, g_in)
    pairs, foreign = _pairs(res, ests, gts)
    used_e = [i for i, _ in pairs]
    used_g = [j for _, j in pairs if j is not None]
    parts = {"only_input_objects": not foreign,
             "each_object_at_most_once": len(set(used_e)) == len(used_e) and len(set(used_g)) == len(used_g),
             "inputs_untouched": len(e_in) == n and len(g_in) == m and all(a is b.obj for a, b in zip(e_in, ests))}
    pe = dict(pairs)
    conds = []
    for i, e in enumerate(ests):
        for j, g in enumerate(gts):
            same = L.And(e.uid == g.uid, e.cam == g.cam)
            conds.append(L.Iff(same, pe.get(i) == j))
    parts["paired_iff_same_uuid_and_camera"] = L.And(*conds)
    parts["every_estimate_reported_once"] = sorted(used_e) == list(range(n)) if (n and m) or n == 0 or True else True
    parts["pairs_share_camera"] = all(ests[i].cam == gts[j].cam for i, j in pairs if j is not None)
    res2 = OR.get_object_results(EvaluationTask.CLASSIFICATION2D, e_in, g_in)
    parts["repeated_call_same_result"] = _pairs(res2, ests, gts)[0] == pairs
    return Out(parts=parts, obs={"pairs": pairs})


def traffic_light_ids(n, m, nlabels, ncams, uuid_first):
    ests, gts = _scene("tl", n, m, nlabels, ncams)
    e_in, g_in = [o.obj for o in ests], [o.obj for o in gts]
    res = OR.get_object_results(EvaluationTask.CLASSIFICATION2D, e_in, g_in, uuid_matching_first=uuid_first)
    pairs, foreign = _pairs(res, ests, gts)
    used_e = [i for i, _ in pairs]
    used_g = [j for _, j in pairs]
    parts = {"only_input_objects": not foreign and all(j is not None for j in used_g),
             "each_object_at_most_once": len(set(used_e)) == len(used_e) and len(set(used_g)) == len(used_g),
             "pairs_share_camera": all(ests[i].cam == gts[j].cam for i, j in pairs if j is not None),
             "inputs_untouched": len(e_in) == n and len(g_in) == m}
    if foreign:
        return Out(parts=parts, obs={"pairs": pairs})
    # every pair is label-equal (first stage) or uuid-equal (second stage)
    label_pairs = [(i, j) for i, j in pairs if ests[i].label == gts[j].label]
    other_pairs = [(i, j) for i, j in pairs if ests[i].label != gts[j].label]
    parts["mismatched_pairs_share_uuid"] = L.And(*[ests[i].uid == gts[j].uid for i, j in other_pairs])
    if uuid_first:
        parts["label_pairs_share_uuid"] = L.And(*[ests[i].uid == gts[j].uid for i, j in label_pairs])
        best = L.Sum([L.If(L.And(e.uid == g.uid), 1, 0) for e in ests for g in gts
                      if e.label == g.label and e.cam == g.cam])
    else:
        best = 0
        for cam in {o.cam for o in ests + gts}:
            for lab in {o.label for o in ests + gts}:
                best += min(sum(1 for e in ests if e.cam == cam and e.label == lab),
                            sum(1 for g in gts if g.cam == cam and g.label == lab))
    parts["label_correct_pairs_maximal"] = L.close(len(label_pairs), best, 0)
    # second stage is complete: no unpaired estimate / ground truth with equal uuid in the same camera is left
    fe = [i for i in range(n) if i not in used_e]
    fg = [j for j in range(m) if j not in used_g]
    parts["uuid_stage_complete"] = L.Not(L.Or(*[L.And(ests[i].uid == gts[j].uid, ests[i].cam == gts[j].cam)
                                                for i in fe for j in fg]))
    res2 = OR.get_object_results(EvaluationTask.CLASSIFICATION2D, e_in, g_in, uuid_matching_first=uuid_first)
    parts["repeated_call_same_result"] = _pairs(res2, ests, gts)[0] == pairs
    return Out(parts=parts, obs={"pairs": pairs})


def _undef(v):
    return v == float("inf") or v != v  # the library reports undefined scores as inf (per label) or nan (summary F1)


def _defs(tp, n_res, n_gt):
    acc = tp / (n_res + n_gt - tp) if (n_res + n_gt - tp) != 0 else float("inf")
    prec = tp / n_res if n_res else float("inf")
    rec = tp / n_gt if n_gt else float("inf")
    f1 = (2 * prec * rec / (prec + rec)) if (prec != float("inf") and rec != float("inf") and prec + rec != 0) else float("inf")
    return acc, prec, rec, f1


def accuracy_scores(family, n, m, nlabels):
    """ClassificationAccuracy / ClassificationMetricsScore through the real pairing and bucketing."""
    labels = (TL if family == "tl" else AW)[:nlabels]
    ests, gts = _scene(family, n, m, nlabels, 1)
    res = OR.get_object_results(EvaluationTask.CLASSIFICATION2D, [o.obj for o in ests], [o.obj for o in gts])
    buckets = divide_objects(res, labels)
    nums = divide_objects_to_num([o.obj for o in gts], labels)
    score = ClassificationMetricsScore({k: [v] for k, v in buckets.items()}, nums, labels)
    parts = {}
    tot = [0, 0, 0]
    for lab, acc in zip(labels, score.accuracies):
        in_bucket = [r for r in res if r.estimated_object.semantic_label.label == lab]
        tp = sum(1 for r in in_bucket if r.ground_truth_object is not None
                 and r.ground_truth_object.semantic_label.label == lab)
        n_gt = sum(1 for g in gts if g.label == lab)
        exp = _defs(tp, len(in_bucket), n_gt)
        got = (acc.accuracy, acc.precision, acc.recall, acc.f1score)
        parts[f"{lab.name}_counting_definitions"] = all(abs(a - b) < 1e-12 if a != float("inf") and b != float("inf") else a == b
                                                       for a, b in zip(got, exp)) and acc.num_tp == tp and \
            acc.num_fp == len(in_bucket) - tp
        parts[f"{lab.name}_in_unit_interval"] = all(v == float("inf") or (0 <= v <= 1) for v in got)
        tot[0] += tp
        tot[1] += len(in_bucket)
        tot[2] += n_gt
    a, p, r, f = score._summarize()
    exp = _defs(tot[0], tot[1], tot[2])
    exp_f1 = exp[3]
    parts["summary_counting_definitions"] = all(abs(x - y) < 1e-12 if not _undef(x) and not _undef(y) else _undef(x) == _undef(y)
                                                for x, y in zip((a, p, r, f), exp))
    parts["summary_in_unit_interval"] = all(_undef(v) or (0 <= v <= 1) for v in (a, p, r, f))
    # scene-level use: the same per-frame lists evaluated twice (as once per call of get_scene_result)
    frames = {k: [list(v), list(v)] for k, v in buckets.items()}
    before = {k: [list(f) for f in v] for k, v in frames.items()}
    nums2 = {k: 2 * v for k, v in nums.items()}
    s1 = ClassificationMetricsScore(frames, nums2, labels)._summarize()
    s2 = ClassificationMetricsScore(frames, nums2, labels)._summarize()
    parts["nested_input_untouched"] = all(len(frames[k]) == 2 and all(len(a) == len(b) and all(x is y for x, y in zip(a, b))
                                                                      for a, b in zip(frames[k], before[k])) for k in frames)
    parts["second_evaluation_equal"] = all((_undef(x) and _undef(y)) or x == y for x, y in zip(s1, s2))
    parts["two_identical_frames_same_ratios"] = all((_undef(x) and _undef(y)) or abs(x - y) < 1e-12 for x, y in zip(s1, (a, p, r, f)))
    perfect = n == m and n > 0 and len(res) == n and all(
        r.ground_truth_object is not None and r.ground_truth_object.semantic_label.label == r.estimated_object.semantic_label.label
        for r in res)
    if perfect:
        parts["perfect_case_scores_one"] = (a, p, r, f) == (1.0, 1.0, 1.0, 1.0)
    return Out(parts=parts, obs={"summary": [a, p, r, f]})


def obligations(pid, tier):
    quick = tier == "quick"
    sizes = [(0, 2), (1, 0), (1, 1), (2, 1), (1, 2), (2, 2)] + ([(3, 2), (2, 3)] if quick else [(3, 2), (2, 3), (3, 3)])
    gen = [dict(n=n, m=m, nlabels=2, ncams=c) for (n, m) in sizes for c in (1, 2) if not (n + m >= 5 and c == 2 and quick)]
    tlc = [dict(n=n, m=m, nlabels=(2 if n + m >= 5 else 3), ncams=c, uuid_first=u) for (n, m) in sizes for c in (1, 2)
           for u in (False, True) if n and m and not (n + m >= 5 and c == 2 and quick)]
    accs = [dict(family=f, n=n, m=m, nlabels=2) for f in ("tl", "aw") for (n, m) in sizes if n + m <= (4 if quick else 5)]
    return [
        Obligation("generic_ids", generic_ids, cases=gen,
                   desc="ROI-less generic objects: paired iff same uuid in the same camera; each object once"),
        Obligation("traffic_light_ids", traffic_light_ids, cases=tlc,
                   desc="traffic lights: label stage (uuid-first optional) then uuid stage; label-correct pairs maximal"),
        Obligation("accuracy_scores", accuracy_scores, cases=accs,
                   desc="accuracy / precision / recall / F1 equal their counting definitions, lie in [0,1], perfect case = 1"),
    ]


def meta(pid):
    return {
        "functions": ["evaluation.result.object_result.get_object_results (ROI-less dispatch)/_get_object_results_with_id/"
                      "_get_object_results_for_tlr/_get_fp_object_results", "evaluation.metrics.classification.accuracy."
                      "ClassificationAccuracy", "evaluation.metrics.classification.classification_metrics_score."
                      "ClassificationMetricsScore.__init__/_summarize", "evaluation.matching.objects_filter.divide_objects/"
                      "divide_objects_to_num"],
        "files": ["evaluation/result/object_result.py", "evaluation/metrics/classification/accuracy.py",
                  "evaluation/metrics/classification/classification_metrics_score.py", "evaluation/matching/objects_filter.py"],
        "bounds": {"quick": "<= 3 estimates x <= 3 ground truths (n+m <= 5), ROI-less 2-D objects with symbolic integer "
                            "uuids (alphabet of 6), labels of 2-3, 1-2 cameras, both uuid-first settings",
                   "thorough": "up to 3x3"},
        "outside": ["non-unique or null uuids (the statement's precondition)", "more objects than the bound"],
        "stand_ins": ["none beyond symbolic integers as uuids"],
        "assumptions": ["uuids unique per side and camera"],
    }
