import sys, time
sys.path.insert(0, '/tmp/spike')
import warnings; warnings.filterwarnings("ignore")
import numpy as rnp
import z3, symx, symnp, models
from symx import SReal, SBool
from perception_eval.common.object import DynamicObject
from perception_eval.common.shape import Shape, ShapeType
from perception_eval.common.label import Label, AutowareLabel
from perception_eval.common.schema import FrameID
import perception_eval.common.object as PO, perception_eval.common.point as PP, perception_eval.common.shape as PS
for m in (PP, PO, PS):
    m.np = symnp.np
PO.math = symnp.math
PO.Polygon = models.ConvexPolygon; PS.Polygon = models.ConvexPolygon
from fractions import Fraction as F
rot = {"0":(1,0),"p345":(F(3,5),F(4,5)),"q2":(-F(4,5),F(3,5))}[sys.argv[1]]
NP=int(sys.argv[2])
CAR=AutowareLabel.CAR
def run():
    C=symx.CTX
    c,s = SReal(z3.RealVal(str(rot[0]))), SReal(z3.RealVal(str(rot[1])))
    cx,cy = SReal(C.var("cx")), SReal(C.var("cy"))
    box = DynamicObject(0, FrameID.BASE_LINK, (cx,cy,1.0), models.YawQuat(c,s), Shape(ShapeType.BOUNDING_BOX,(2.0,4.0,2.0)), None, 1.0, Label(CAR,"car"), uuid="b")
    pts = symnp.symarray(rnp.empty((NP,3),dtype=object))
    for i in range(NP):
        for j,n in enumerate("xyz"):
            pts[i,j]=SReal(C.var(f"p{i}{n}"))
    inside = box.crop_pointcloud(pts, 1.0, inside=True)
    outside = box.crop_pointcloud(pts, 1.0, inside=False)
    # oracle: point in box (open margin excluded): local coords
    prop = z3.BoolVal(len(inside)+len(outside)==NP)
    ins_ids = [id(r[0]) for r in inside]
    for i in range(NP):
        dx,dy = pts[i,0]-cx, pts[i,1]-cy
        lx = c*dx + s*dy; ly = -s*dx + c*dy
        strictly_in = z3.And(abs(lx).e < 2.0, abs(ly).e < 1.0, pts[i,2].e > 0, pts[i,2].e < 2)
        strictly_out = z3.Or(abs(lx).e > 2.0, abs(ly).e > 1.0, pts[i,2].e < 0, pts[i,2].e > 2)
        got_in = id(pts[i,0]) in ins_ids
        prop = z3.And(prop, z3.Implies(strictly_in, z3.BoolVal(got_in)), z3.Implies(strictly_out, z3.BoolVal(not got_in)))
    return prop
t=time.time()
paths, results, ctx = symx.explore(run, timeout_ms=20000)
print(sys.argv[1:],"paths",paths,"results",[(r[0]) for r in results][:5],len(results),"checks",ctx.n_checks,"solver_s",round(ctx.t_solver,2),"unknown",ctx.n_unknown,"wall",round(time.time()-t,2))
if results and results[0][0]=="cex": print(results[0][1])
