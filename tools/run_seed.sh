#!/bin/bash
# tools/run_seed.sh <seed-name> <property-id> [tier]: apply /verif/seeded/<name>/patch.diff to /repo, run the check, undo.
# The committed evidence file (which must describe the unchanged tree) is saved before and restored after the run.
name=$1; pid=$2; tier=${3:-quick}
cd /repo && git diff --quiet || { echo "/repo not clean"; exit 9; }
git -C /repo apply /verif/seeded/$name/patch.diff || exit 9
cp /verif/evidence/$pid.json /tmp/evidence_$pid.$$.json 2>/dev/null
cd /verif && ./bin/check $pid --tier $tier > /tmp/seedrun_$name.log 2>&1; code=$?
git -C /repo checkout -- .
[ -f /tmp/evidence_$pid.$$.json ] && mv /tmp/evidence_$pid.$$.json /verif/evidence/$pid.json
grep -E "VIOLATION|HARNESS|INCONCL|WITNESS|exit=" /tmp/seedrun_$name.log | cut -c1-220 | head -4
echo "seed=$name property=$pid tier=$tier exit=$code"
