"""C14 - label names convert totally, case-insensitively and consistently with merging."""
from perception_eval.common.label import AutowareLabel as A
from perception_eval.common.label import LabelConverter
from perception_eval.common.label import TrafficLightLabel as T
from perception_eval.common.label import set_target_lists

from ..runner import Obligation, Out
from ..symstr import SymStr, symstr
from ..symx import L

MERGE = {A.TRUCK: A.CAR, A.BUS: A.CAR, A.MOTORBIKE: A.BICYCLE}

# name -> label pinned from docs/en/perception/label.md, restricted to entries on which the document and the
# code agree today (the document is stale for several traffic-light names and for "static_object.forklift")
PINNED = {
    ("autoware", False): {
        "car": A.CAR, "vehicle.car": A.CAR, "vehicle.construction": A.CAR,
        "vehicle.emergency (ambulance & police)": A.CAR, "vehicle.police": A.CAR, "vehicle.fire": A.CAR,
        "vehicle.ambulance": A.CAR, "truck": A.TRUCK, "vehicle.truck": A.TRUCK, "trailer": A.TRUCK,
        "vehicle.trailer": A.TRUCK, "bus": A.BUS, "vehicle.bus": A.BUS, "vehicle.bus (bendy & rigid)": A.BUS,
        "bicycle": A.BICYCLE, "vehicle.bicycle": A.BICYCLE, "motorbike": A.MOTORBIKE, "motorcycle": A.MOTORBIKE,
        "vehicle.motorcycle": A.MOTORBIKE, "pedestrian": A.PEDESTRIAN, "stroller": A.PEDESTRIAN,
        "pedestrian.adult": A.PEDESTRIAN, "pedestrian.child": A.PEDESTRIAN,
        "pedestrian.construction_worker": A.PEDESTRIAN, "pedestrian.personal_mobility": A.PEDESTRIAN,
        "pedestrian.police_officer": A.PEDESTRIAN, "pedestrian.stroller": A.PEDESTRIAN,
        "pedestrian.wheelchair": A.PEDESTRIAN, "unknown": A.UNKNOWN, "animal": A.UNKNOWN,
        "movable_object.barrier": A.UNKNOWN, "movable_object.debris": A.UNKNOWN,
        "movable_object.pushable_pullable": A.UNKNOWN, "movable_object.trafficcone": A.UNKNOWN,
        "movable_object.traffic_cone": A.UNKNOWN, "static_object.bicycle rack": A.UNKNOWN,
        "static_object.bollard": A.UNKNOWN,
    },
    ("traffic_light", "detection2d"): {n: T.TRAFFIC_LIGHT for n in (
        "traffic_light", "green", "red", "yellow", "red_straight", "red_left", "red_right", "red_right_diagonal",
        "yellow_right")} | {"unknown": T.UNKNOWN},
    ("traffic_light", "classification2d"): {
        "green": T.GREEN, "red": T.RED, "yellow": T.YELLOW, "red_straight": T.RED_STRAIGHT, "red_left": T.RED_LEFT,
        "red_right": T.RED_RIGHT, "red_right_diagonal": T.RED_RIGHT_DIAGONAL, "yellow_right": T.YELLOW_RIGHT,
        "unknown": T.UNKNOWN},
}
PINNED[("autoware", True)] = {k: MERGE.get(v, v) for k, v in PINNED[("autoware", False)].items()}


def _convert(conv, s):
    try:
        return conv.convert_label(s).label, None
    except Exception as e:  # noqa
        return None, e


def conversion_laws(prefix, task, merge, minlen, maxlen):
    conv = LabelConverter(task, merge, prefix)
    unknown = conv.label_type.UNKNOWN
    s = symstr("s", maxlen, minlen)
    low = s.lower()
    lab, exc = _convert(conv, s)
    parts = {"total": exc is None}
    if exc is not None:
        return Out(parts=parts, obs={"exc": type(exc).__name__})

    # (ii) letter case is ignored
    lab_low, exc2 = _convert(conv, low)
    up, exc3 = _convert(conv, s.upper())
    parts["case_insensitive"] = exc2 is None and exc3 is None and lab_low is lab and up is lab

    # (iii) lookup faithful to the converter's own registry (first occurrence wins), else unknown
    first = {}
    for info in conv.label_infos:
        first.setdefault(info.name, info.label)
    hits = []
    for name, label in first.items():
        h = low == name
        if h is False:
            continue
        hits.append(h)
        parts[f"registered_{name}"] = L.Implies(h, lab is label)
    parts["unregistered_is_unknown"] = L.Implies(L.Not(L.Or(*hits)), lab is unknown)

    # (iv) every label the converter can produce is the image of its own canonical name
    for label in {info.label for info in conv.label_infos}:
        h = low == label.value
        if h is not False:
            parts[f"canonical_{label.name}"] = L.Implies(h, lab is label)

    # (vii) names pinned from the documentation
    key = (prefix, merge) if prefix == "autoware" else (prefix, "classification2d" if task == "classification2d"
                                                        else "detection2d")
    for name, label in PINNED[key].items():
        h = low == name
        if h is not False:
            parts[f"documented_{name}"] = L.Implies(h, lab is label)

    # (vi) target lists are resolved with the same mapping
    tl = set_target_lists([s], conv)
    parts["target_list_same_mapping"] = len(tl) == 1 and tl[0] is lab and conv.convert_name(s) is lab
    # ... name by name: entry i belongs to name i, also when several names resolve to one label (aliases, merged labels,
    # two unregistered names), so that per-label threshold lists keep lining up
    other = "car" if prefix == "autoware" else "green"
    names = [s, other, s, "vehicle.car" if prefix == "autoware" else "red", "no such name"]
    tl5 = set_target_lists(names, conv)
    parts["target_list_is_name_by_name"] = len(tl5) == len(names) and tl5[0] is lab and tl5[2] is lab and all(
        got is conv.convert_name(n) for got, n in zip(tl5, names))
    return Out(parts=parts, obs={"label": lab.name})


def merge_consistency(task, minlen, maxlen):
    s = symstr("s", maxlen, minlen)
    a, e1 = _convert(LabelConverter(task, False, "autoware"), s)
    b, e2 = _convert(LabelConverter(task, True, "autoware"), s)
    ok = e1 is None and e2 is None and b is MERGE.get(a, a)
    return Out(parts={"merge_is_image_of_unmerged": ok}, obs={"plain": getattr(a, "name", None),
                                                              "merged": getattr(b, "name", None)})


AUTOWARE_TASKS = ["detection", "tracking", "prediction", "sensing", "detection2d", "tracking2d", "classification2d",
                  "fp_validation", "fp_validation2d"]
TL_TASKS = ["detection2d", "tracking2d", "classification2d", "fp_validation2d"]


def obligations(pid, tier):
    maxlen = 40 if tier == "quick" else 48
    chunks = [(0, 6), (7, 10), (11, 14), (15, 18), (19, 22), (23, 26), (27, 31), (32, 36), (37, maxlen)]
    cases = []
    for lo, hi in chunks:
        for merge in (False, True):
            for task in (["detection", "detection2d"] if tier == "quick" else AUTOWARE_TASKS):
                cases.append(dict(prefix="autoware", task=task, merge=merge, minlen=lo, maxlen=hi))
        for task in (["detection2d", "classification2d"] if tier == "quick" else TL_TASKS):
            cases.append(dict(prefix="traffic_light", task=task, merge=False, minlen=lo, maxlen=hi))
    SymStr.hash_candidates = ()
    return [
        Obligation("conversion_laws", conversion_laws, cases=cases, use_shims=False,
                   desc="total, case-insensitive, registry-faithful, canonical-name law, documented names, "
                        "set_target_lists uses the same mapping"),
        Obligation("merge_consistency", merge_consistency, use_shims=False,
                   cases=[dict(task=t, minlen=lo, maxlen=hi) for lo, hi in chunks
                          for t in (["detection"] if tier == "quick" else ["detection", "tracking", "detection2d"])],
                   desc="convert with merging == merge(convert without merging) for every string"),
    ]


def meta(pid):
    return {
        "functions": ["common.label.LabelConverter.__init__/convert_label/convert_name", "common.label._get_autoware_pairs",
                      "common.label._get_traffic_light_paris", "common.label.set_target_lists"],
        "files": ["common/label.py"],
        "bounds": {"quick": "name: every length 0..40 (longest registered name: 38), ASCII code points symbolic; both "
                            "families, merge on/off, tasks detection/detection2d/classification2d",
                   "thorough": "lengths 0..48, every evaluation task"},
        "outside": ["non-ASCII names / Unicode case folding", "names longer than the bound (necessarily unregistered)"],
        "stand_ins": ["SymStr (str subclass with symbolic characters)"],
        "assumptions": ["the name->label table is read from the converter's own registry for the lookup law; documented "
                        "names are pinned only where docs/en/perception/label.md and the code agree (the document is "
                        "stale for several traffic-light names)"],
    }
