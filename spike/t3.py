import sys, time
sys.path.insert(0, '/tmp/spike')
import warnings; warnings.filterwarnings("ignore")
import z3, symx, symnp, models
from symx import SReal, SBool
from perception_eval.common.object import DynamicObject
from perception_eval.common.shape import Shape, ShapeType
from perception_eval.common.label import Label, AutowareLabel
from perception_eval.common.schema import FrameID
import perception_eval.common.object as PO, perception_eval.evaluation.matching.object_matching as OM, perception_eval.common.point as PP, perception_eval.common.shape as PS
import perception_eval.common as PC
import perception_eval.evaluation.result.object_result as OR
import perception_eval.evaluation.metrics.detection.ap as AP
from perception_eval.evaluation.metrics.detection.tp_metrics import TPMetricsAp
from perception_eval.evaluation.matching import MatchingMode
for m in (PC, PP, PO, OM, PS, OR, AP):
    m.np = symnp.np
OM.math = symnp.math; PO.math = symnp.math
PO.Polygon = models.ConvexPolygon; OM.Polygon = models.ConvexPolygon; PS.Polygon = models.ConvexPolygon
N=int(sys.argv[1])
CAR=AutowareLabel.CAR
def mk(name, x, conf):
    return DynamicObject(0, FrameID.BASE_LINK, (x,0.0,0.0), models.YawQuat(), Shape(ShapeType.BOUNDING_BOX,(1.0,1.0,1.0)), None, conf, Label(CAR,"car"), uuid=name)
def run():
    C=symx.CTX
    thr = SReal(C.var("thr")); C.add(thr.e>0)
    results=[]; ds=[]
    for i in range(N):
        d = SReal(C.var(f"d{i}")); C.add(d.e>=0)
        has_gt = C.branch(C.var(f"hg{i}","bool"))
        est = mk(f"e{i}", 10.0 + d, 0.9 - 0.1*i)
        gt = mk(f"g{i}", 10.0, 1.0) if has_gt else None
        results.append(OR.DynamicObjectWithPerceptionResult(est, gt))
        ds.append((d, has_gt))
    ngt = C.var("ngt","int"); C.add(z3.And(ngt>=1, ngt<=N+1))
    ngt_c = None
    for k in range(1, N+2):
        if C.branch(ngt==k): ngt_c=k; break
    ap = AP.Ap(TPMetricsAp(), results, ngt_c, [CAR], MatchingMode.CENTERDISTANCE, [thr])
    # reference: interpolated PR area
    tp = [z3.If(d.e < thr.e, 1, 0) if hg else z3.IntVal(0) for d,hg in ds]
    cum=[]; s=z3.IntVal(0)
    for t in tp:
        s = s + t; cum.append(s)
    prec=[z3.ToReal(cum[i])/(i+1) for i in range(N)]
    rec=[z3.ToReal(cum[i])/ngt_c for i in range(N)]
    # interp precision at i = max_{j>=i} prec[j]
    def zmax(xs):
        m=xs[0]
        for x in xs[1:]: m=z3.If(x>m,x,m)
        return m
    pint=[zmax(prec[i:]) for i in range(N)]
    area=z3.RealVal(0); prev_r=z3.RealVal(0)
    for i in range(N):
        area = area + pint[i]*(rec[i]-prev_r); prev_r=rec[i]
    apv = ap.ap
    apv_e = symx._lift(apv)
    ntp = cum[-1]
    global DBG; DBG=(apv_e, area, ap.tp_list, ap.fp_list)
    return z3.And(apv_e-area<=1e-9, area-apv_e<=1e-9, apv_e>=0, z3.Implies(ntp<=ngt_c, apv_e<=1+1e-9))
t=time.time()
paths, results, ctx = symx.explore(run, timeout_ms=20000)
print("N",N,"paths",paths,"results",[(r[0]) for r in results][:5],len(results),"checks",ctx.n_checks,"solver_s",round(ctx.t_solver,2),"unknown",ctx.n_unknown,"wall",round(time.time()-t,2))
if results and results[0][0]=="cex": print(results[0][1])
if results and results[0][0]=="cex":
    m=results[0][1]
    print([m.eval(x) for x in DBG[:2]]); print(DBG[2], DBG[3])
