import sys, time
sys.path.insert(0, '/tmp/spike')
import warnings; warnings.filterwarnings("ignore")
import z3, symx, symnp
from symx import SReal, SBool
from pyquaternion import Quaternion
from perception_eval.common.object import DynamicObject
from perception_eval.common.shape import Shape, ShapeType
from perception_eval.common.label import Label, AutowareLabel
from perception_eval.common.schema import FrameID
from perception_eval.common.evaluation_task import EvaluationTask
import perception_eval.evaluation.result.object_result as OR
import perception_eval.common as PC
import perception_eval.common.point as PP
from perception_eval.evaluation.matching import MatchingMode, MatchingLabelPolicy

import perception_eval.common.object as PO, perception_eval.evaluation.matching.object_matching as OM, models
for m in (OR, PC, PP, PO, OM):
    m.np = symnp.np
OM.math = symnp.math; PO.math = symnp.math
PO.Polygon = models.ConvexPolygon; OM.Polygon = models.ConvexPolygon


LABELS=[AutowareLabel.CAR]
def choose(name, options):
    # n-way fork
    v = symx.CTX.var(name, "int")
    symx.CTX.add(z3.And(v>=0, v<len(options)))
    for i,o in enumerate(options[:-1]):
        if symx.CTX.branch(v==i):
            return o
    return options[-1]

def mk(name, frame=FrameID.BASE_LINK):
    x = SReal(symx.CTX.var(name+"_x"))
    lab = choose(name+"_l", LABELS)
    return DynamicObject(0, frame, (x, 0.0, 0.0), models.YawQuat(), Shape(ShapeType.BOUNDING_BOX,(1.0,1.0,1.0)), None, 0.5, Label(lab, lab.value), uuid=name)

NE, NG = int(sys.argv[1]), int(sys.argv[2])
def run():
    ests=[mk(f"e{i}") for i in range(NE)]
    gts=[mk(f"g{i}") for i in range(NG)]
    res = OR.get_object_results(EvaluationTask.DETECTION, ests, gts, target_labels=LABELS, matching_label_policy=MatchingLabelPolicy.DEFAULT, matching_mode=MatchingMode.CENTERDISTANCE)
    # property: one-to-one and complete
    used_e=[id(r.estimated_object) for r in res]
    used_g=[id(r.ground_truth_object) for r in res if r.ground_truth_object is not None]
    ok = len(set(used_e))==len(used_e)==NE and len(set(used_g))==len(used_g) and set(used_e)=={id(e) for e in ests} and set(used_g)<={id(g) for g in gts}
    # no blocking pair among compatible: for each compatible unmatched pair (e,g): e matched compat to g' with d(e,g')<=d(e,g) or g matched ...
    partner_e={id(r.estimated_object): r for r in res}
    partner_g={id(r.ground_truth_object): r for r in res if r.ground_truth_object is not None}
    prop = z3.BoolVal(ok)
    for e in ests:
        for g in gts:
            compat = e.semantic_label==g.semantic_label
            if not compat: continue
            re_=partner_e[id(e)]
            if re_.ground_truth_object is g: continue
            d = abs(e.state.position[0]-g.state.position[0])
            alts=[]
            if re_.ground_truth_object is not None and re_.estimated_object.semantic_label==re_.ground_truth_object.semantic_label:
                alts.append((abs(e.state.position[0]-re_.ground_truth_object.state.position[0]) <= d).e)
            rg=partner_g.get(id(g))
            if rg is not None and rg.estimated_object.semantic_label==g.semantic_label:
                alts.append((abs(rg.estimated_object.state.position[0]-g.state.position[0]) <= d).e)
            prop = z3.And(prop, z3.Or(*alts) if alts else z3.BoolVal(False))
    return prop

t=time.time()
paths, results, ctx = symx.explore(run)
print("paths",paths,"results",[(r[0]) for r in results],"checks",ctx.n_checks,"solver_s",round(ctx.t_solver,2),"unknown",ctx.n_unknown,"wall",round(time.time()-t,2))
if results and results[0][0]=="cex": print(results[0][1])
