#!/usr/bin/env python3
"""Print the DESIGN.md section-5 cost table from the committed evidence files."""
import glob, json, os
HERE = os.path.dirname(os.path.dirname(os.path.abspath(__file__)))
rows = []
for f in sorted(glob.glob(os.path.join(HERE, "evidence", "C*.json"))):
    e = json.load(open(f)); c = e["coverage"]
    rows.append((e["property_id"], c["obligations"], c["states"], c["queries"], round(c["solver_s"]), round(e["wall_s"])))
print("| check | obligations | paths | solver queries | solver s (sum over workers) | wall s |")
print("|---|---|---|---|---|---|")
for r in rows:
    print("| " + " | ".join(f"{v:,}".replace(",", " ") if isinstance(v, int) else str(v) for v in r) + " |")
print(f"\nTotal wall time of the quick tier: {sum(r[5] for r in rows)} s.")
