"""Shared scene builder for the frame-level harnesses (C03, C07, C08, C13, C19).

A scene is described in *ego-relative* coordinates (the physical scene); it can be rendered in the ego frame
(BASE_LINK) or in the map frame together with an ego pose (exact rational rotation, symbolic translation).
"""
from fractions import Fraction

from perception_eval.common.dataset import FrameGroundTruth
from perception_eval.common.evaluation_task import EvaluationTask
from perception_eval.common.label import AutowareLabel, Label, LabelConverter
from perception_eval.common.object import DynamicObject
from perception_eval.common.schema import FrameID
from perception_eval.common.shape import Shape, ShapeType
from perception_eval.common.transform import HomogeneousMatrix, TransformDict
import perception_eval.common.object as PO
import perception_eval.evaluation.metrics.detection.ap as AP
import perception_eval.evaluation.result.object_result as OR
from perception_eval.evaluation.matching import MatchingLabelPolicy
from perception_eval.evaluation.metrics import MetricsScoreConfig
from perception_eval.evaluation.result.perception_frame_config import (CriticalObjectFilterConfig,
                                                                       PerceptionPassFailConfig)
from perception_eval.evaluation.result.perception_frame_result import PerceptionFrameResult

from .. import build, models, symx
from ..lazy import lazy_extras
from ..symnp import sym_float
from ..symx import L, real

CAR, PED, UNK, FP, BUS = (AutowareLabel.CAR, AutowareLabel.PEDESTRIAN, AutowareLabel.UNKNOWN, AutowareLabel.FP,
                          AutowareLabel.BUS)
EGO_Q = {"id": (1, 0, 0, 0), "yaw_3_4_5": (2, 0, 0, 1), "yaw90": (1, 0, 0, 1), "yaw_neg": (3, 0, 0, -1),
         "yaw180": (0, 0, 0, 1)}
POLICIES = {"default": MatchingLabelPolicy.DEFAULT, "allow_unknown": MatchingLabelPolicy.ALLOW_UNKNOWN,
            "allow_any": MatchingLabelPolicy.ALLOW_ANY}
SIZE = (2.0, 4.0, 1.5)


def frame_extras():
    return lazy_extras() + [(AP, "float", sym_float), (PO, "float", sym_float)]


class EvalCfg:
    """what CriticalObjectFilterConfig / PerceptionPassFailConfig need from an evaluator config"""

    def __init__(self, task="detection"):
        self.evaluation_task = EvaluationTask.from_value(task)
        self.label_converter = LabelConverter(task, False, "autoware")


class Pose:
    """ego pose: rendering of ego-relative coordinates into a frame"""

    def __init__(self, frame, ego_q="id", tag="ego", reuse_buffer=False):
        self.frame_name = frame
        self.frame = FrameID.MAP if frame == "map" else FrameID.BASE_LINK
        self.q = EGO_Q[ego_q]
        self.M = models.q_to_matrix(tuple(Fraction(v) for v in self.q))
        # the dataset always ships the ego pose with a frame, whatever frame the objects are in
        self.t = (real(f"{tag}_tx", -500, 500), real(f"{tag}_ty", -500, 500), 0.0)
        if reuse_buffer:
            # the ego translation is handed over in a caller-owned array which the caller then advances in place
            # (a loader integrating the ego position in one buffer); the transform must keep the pose it was given
            import numpy as np

            from ..symnp import symarray
            buf = symarray(list(self.t)) if symx.is_symbolic() else np.array([float(v) for v in self.t])
            self.transforms = [HomogeneousMatrix(buf, build.mkrot(self.q), FrameID.BASE_LINK, FrameID.MAP)]
            buf += 7.5
        else:
            self.transforms = [HomogeneousMatrix(self.t, build.mkrot(self.q), FrameID.BASE_LINK, FrameID.MAP)]

    def render(self, ex, ey, ez=0.0):
        if self.frame == FrameID.BASE_LINK:
            return (ex, ey, ez)
        M = [[build.const(v) for v in row] for row in self.M]
        return (M[0][0] * ex + M[0][1] * ey + self.t[0], M[1][0] * ex + M[1][1] * ey + self.t[1], ez)

    def rot(self, yaw_q=(1, 0, 0, 0)):
        """orientation of an object whose ego-relative orientation is yaw_q"""
        if self.frame == FrameID.BASE_LINK:
            return build.mkrot(yaw_q)
        return build.mkrot(models.qmul(tuple(Fraction(v) for v in self.q), tuple(Fraction(v) for v in yaw_q)))


class SObj:
    """scene object: ego-relative description + the rendered repository object"""

    def __init__(self, name, pose, label, ex, ey, conf=1.0, points=10, is_gt=False, yaw_q=(1, 0, 0, 0), unix_time=0,
                 uuid=None):
        self.name, self.label, self.ex, self.ey, self.conf, self.points, self.is_gt = name, label, ex, ey, conf, points, is_gt
        self.uuid = uuid if uuid is not None else name
        self.obj = DynamicObject(unix_time, pose.frame, pose.render(ex, ey), pose.rot(yaw_q),
                                 Shape(ShapeType.BOUNDING_BOX, SIZE), (1.0, 0.0, 0.0), conf, Label(label, label.value),
                                 pointcloud_num=points, uuid=self.uuid)


def dist2(a, b):
    return (a.ex - b.ex) * (a.ex - b.ex) + (a.ey - b.ey) * (a.ey - b.ey)


def compat(policy, e_label, g_label):
    if g_label == FP or policy == "allow_any":
        return True
    if policy == "allow_unknown":
        return e_label == g_label or e_label == UNK
    return e_label == g_label


def critical(o, targets, crit):
    """oracle: is scene object `o` inside the critical region `crit` = ('xy', max_x[], max_y[]) | ('dist', max[], min[])"""
    if o.label == FP:
        return True
    relaxed = o.label == UNK and not o.is_gt and UNK not in targets
    if not relaxed and o.label not in targets:
        return False

    def thr(lst):
        if relaxed:
            s = 0
            for v in lst:
                s = s + v
            return s / len(lst)
        return lst[targets.index(o.label)]

    if crit[0] == "xy":
        return L.And(abs(o.ex) < thr(crit[1]), abs(o.ey) < thr(crit[2]))
    if crit[0] == "xy_uuid":  # x/y box plus a list of critical ground-truth ids (judged on ground truths only)
        return L.And(abs(o.ex) < thr(crit[1]), abs(o.ey) < thr(crit[2]), (o.uuid in crit[3]) if o.is_gt else True)
    d2 = o.ex * o.ex + o.ey * o.ey
    tmax, tmin = thr(crit[1]), thr(crit[2])
    return L.And(d2 < tmax * tmax, d2 > tmin * tmin)


def crit_config(cfg, target_names, crit):
    if crit[0] == "xy_uuid":
        return CriticalObjectFilterConfig(cfg, target_names, max_x_position_list=list(crit[1]),
                                          max_y_position_list=list(crit[2]), target_uuids=list(crit[3]))
    if crit[0] == "xy":
        return CriticalObjectFilterConfig(cfg, target_names, max_x_position_list=list(crit[1]),
                                          max_y_position_list=list(crit[2]))
    return CriticalObjectFilterConfig(cfg, target_names, max_distance_list=list(crit[1]), min_distance_list=list(crit[2]))


def run_frame(pose, ests, gts, targets, policy, crit, pf_thresholds, task="detection", metrics=None, frame_name="0",
              unix_time=0, previous=None, match_radii=None, derive_from=None, pf_reversed=False):
    """matching + PerceptionFrameResult.evaluate_frame on a rendered scene, as the manager does.
    `derive_from`: an earlier FrameGroundTruth that is deep-copied and given this frame's pose and objects (what the
    interpolation code does with a key frame), so that its transform registry is *reused*."""
    cfg = EvalCfg(task)
    names = [t.value for t in targets]
    if derive_from is not None:
        from copy import deepcopy

        from perception_eval.common.transform import TransformKey
        gtf = deepcopy(derive_from)
        gtf.transforms[TransformKey(FrameID.BASE_LINK, FrameID.MAP)] = pose.transforms[0]
        gtf.objects = [g.obj for g in gts]
        gtf.unix_time, gtf.frame_name = unix_time, frame_name
    else:
        gtf = FrameGroundTruth(unix_time, frame_name, [g.obj for g in gts], transforms=pose.transforms)
    results = OR.get_object_results(cfg.evaluation_task, [e.obj for e in ests], gtf.objects, target_labels=targets,
                                    matching_label_policy=POLICIES[policy], matchable_thresholds=match_radii,
                                    transforms=gtf.transforms)
    mcfg = MetricsScoreConfig(cfg.evaluation_task, target_labels=targets,
                              **({"center_distance_thresholds": [[1.0] * len(targets)]} if metrics is None else metrics))
    pf_names, pf_thr = (names[::-1], list(pf_thresholds)[::-1]) if pf_reversed else (names, list(pf_thresholds))
    fr = PerceptionFrameResult(results, gtf, mcfg, crit_config(cfg, names, crit),
                               PerceptionPassFailConfig(cfg, pf_names, matching_threshold_list=pf_thr),
                               unix_time, targets)
    fr.evaluate_frame(previous_result=previous)
    return fr, results
