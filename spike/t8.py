import sys, time
sys.path.insert(0, '/tmp/spike'); sys.path.insert(0,'/repo/perception_eval')
import warnings; warnings.filterwarnings("ignore")
import z3, symx, symnp, models
from symx import SReal, SBool
from perception_eval.common.object import DynamicObject
from perception_eval.common.shape import Shape, ShapeType
from perception_eval.common.label import Label, AutowareLabel
from perception_eval.common.schema import FrameID
import perception_eval.common.object as PO, perception_eval.evaluation.matching.object_matching as OM, perception_eval.common.point as PP, perception_eval.common.shape as PS
import perception_eval.common as PC
import perception_eval.evaluation.result.object_result as OR
from perception_eval.evaluation.metrics.tracking.clear import CLEAR
from perception_eval.evaluation.matching import MatchingMode
for m in (PC, PP, PO, OM, PS, OR):
    m.np = symnp.np
OM.math = symnp.math; PO.math = symnp.math
PO.Polygon = models.ConvexPolygon; OM.Polygon = models.ConvexPolygon; PS.Polygon = models.ConvexPolygon
CAR=AutowareLabel.CAR
class SId:
    def __init__(self,e): self.e=e
    def __eq__(self,o): return SBool(self.e==o.e) if isinstance(o,SId) else False
    __hash__=None
    def __deepcopy__(self,m): return self
F_,R_=int(sys.argv[1]),int(sys.argv[2])
def mk(x, uid):
    return DynamicObject(0, FrameID.BASE_LINK,(x,0.0,0.0),models.Rot(),Shape(ShapeType.BOUNDING_BOX,(1.0,1.0,1.0)),None,0.5,Label(CAR,"car"),uuid=uid)
def run():
    C=symx.CTX
    thr=SReal(C.var("thr")); C.add(thr.e>0)
    frames=[]; meta=[]
    for f in range(F_):
        fr=[]; mt=[]
        for r in range(R_):
            if not C.branch(C.var(f"present{f}{r}","bool")): continue
            e=C.var(f"e{f}{r}","int"); g=C.var(f"g{f}{r}","int"); d=C.var(f"d{f}{r}"); C.add(d>=0)
            hg=C.branch(C.var(f"hg{f}{r}","bool"))
            est=mk(10.0+SReal(d), SId(e)); gt=mk(10.0, SId(g)) if hg else None
            fr.append(OR.DynamicObjectWithPerceptionResult(est,gt)); mt.append((e,g,d,hg))
        # uniqueness within frame
        for i in range(len(mt)):
            for j in range(i+1,len(mt)):
                C.add(mt[i][0]!=mt[j][0])
                if mt[i][3] and mt[j][3]: C.add(mt[i][1]!=mt[j][1])
        frames.append(fr); meta.append(mt)
    ngt=3
    cl=CLEAR(frames, ngt, [CAR], MatchingMode.CENTERDISTANCE, [thr])
    # spec
    def is_tp(m): return z3.And(z3.BoolVal(m[3]), m[2] < thr.e)
    tp=z3.IntVal(0); fp=z3.IntVal(0); sw=z3.IntVal(0); n=0
    for f in range(1,F_):
        for cur in meta[f]:
            n+=1
            same=z3.Or(*[z3.And(is_tp(p), z3.BoolVal(cur[3] and p[3]), cur[0]==p[0], cur[1]==p[1]) for p in meta[f-1]]) if meta[f-1] else z3.BoolVal(False)
            switched=z3.Or(*[z3.And(is_tp(p), z3.BoolVal(cur[3] and p[3]), (cur[0]==p[0])!=(cur[1]==p[1])) for p in meta[f-1]]) if meta[f-1] else z3.BoolVal(False)
            cur_tp=z3.Or(same, is_tp(cur))
            tp=tp+z3.If(cur_tp,1,0); fp=fp+z3.If(cur_tp,0,1)
            sw=sw+z3.If(z3.And(z3.Not(same), is_tp(cur), switched),1,0)
    L=symx._lift
    mota_spec = z3.ToReal(tp-fp-sw)/ngt
    mota_spec = z3.If(mota_spec>0, mota_spec, 0)
    return z3.And(L(cl.tp)==z3.ToReal(tp), L(cl.fp)==z3.ToReal(fp), L(cl.id_switch)==z3.ToReal(sw), L(cl.tp)+L(cl.fp)==n, L(cl.mota)-mota_spec<=1e-9, mota_spec-L(cl.mota)<=1e-9)
t=time.time()
paths, results, ctx = symx.explore(run, timeout_ms=20000)
print(sys.argv[1:],"paths",paths,"results",[(r[0]) for r in results][:5],len(results),"checks",ctx.n_checks,"solver_s",round(ctx.t_solver,2),"unknown",ctx.n_unknown,"wall",round(time.time()-t,2))
if results and results[0][0]=="cex": print(results[0][1])
