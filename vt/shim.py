"""Module-global substitution of third-party names inside the already imported perception_eval modules.

No file under /repo is edited.  `install()` replaces `np`, `math`, `Quaternion`, `Polygon` (and any
extra (module, name, value) triples a harness asks for) and `uninstall()` restores them; the concrete
mode (replay, witness validation) always runs with everything restored.
"""
import importlib
import math as _math
import sys
from contextlib import contextmanager

import numpy as _np
from pyquaternion import Quaternion as _Quaternion
from shapely.geometry import Polygon as _Polygon

from . import models, symnp

_SKIP = ("perception_eval.test", "perception_eval.visualization")
_saved = []
_installed_extras = []
PATCHED = []


def _targets():
    for name, mod in list(sys.modules.items()):
        if mod is None or not name.startswith("perception_eval"):
            continue
        if any(name.startswith(s) for s in _SKIP):
            continue
        yield name, mod


def install(extras=()):
    if _saved:
        raise RuntimeError("shims already installed")
    PATCHED.clear()
    for name, mod in _targets():
        d = mod.__dict__
        for attr, orig, repl in (
            ("np", _np, symnp.np),
            ("math", _math, symnp.math),
            ("Quaternion", _Quaternion, models.Rot),
            ("Polygon", _Polygon, models.ConvexPolygon),
        ):
            if d.get(attr) is orig:
                _saved.append((mod, attr, orig))
                setattr(mod, attr, repl)
                PATCHED.append(f"{name}.{attr}")
        if "float" not in d:  # builtin float() shadowed by a stand-in that is the identity on symbolic scalars
            _saved.append((mod, "float", _MISSING))
            mod.float = symnp.SymFloat
    for mod, attr, val in extras:
        if isinstance(mod, str):
            mod = importlib.import_module(mod)
        missing = object()
        old = mod.__dict__.get(attr, missing)
        _saved.append((mod, attr, old if old is not missing else _MISSING))
        setattr(mod, attr, val)
        PATCHED.append(f"{mod.__name__}.{attr}*")


_MISSING = object()


def uninstall():
    while _saved:
        mod, attr, orig = _saved.pop()
        if orig is _MISSING:
            try:
                delattr(mod, attr)
            except AttributeError:
                pass
        else:
            setattr(mod, attr, orig)


@contextmanager
def off():
    """Temporarily restore the real libraries (used for concrete runs inside a symbolic exploration)."""
    snapshot = [(m, a, m.__dict__.get(a, _MISSING)) for (m, a, _o) in _saved]
    originals = list(_saved)
    for mod, attr, orig in reversed(originals):
        if orig is _MISSING:
            if attr in mod.__dict__:
                delattr(mod, attr)
        else:
            setattr(mod, attr, orig)
    try:
        yield
    finally:
        for mod, attr, val in snapshot:
            if val is _MISSING:
                if attr in mod.__dict__:
                    delattr(mod, attr)
            else:
                setattr(mod, attr, val)
