"""Spike: numpy proxy that keeps real numpy semantics but supports object arrays of symbolic scalars."""
import math as _math

import numpy as _np

import symx
from symx import SBool, SReal


def _is_sym(x):
    return isinstance(x, (SReal, SBool))


def _has_sym(a):
    if _is_sym(a):
        return True
    if isinstance(a, _np.ndarray):
        return a.dtype == object and any(_is_sym(v) for v in a.flat)
    if isinstance(a, (list, tuple)):
        return any(_has_sym(v) for v in a)
    return False


class _Linalg:
    def __getattr__(self, name):
        return getattr(_np.linalg, name)

    @staticmethod
    def norm(x, ord=None, axis=None, keepdims=False):
        a = _np.asarray(x, dtype=object) if _has_sym(x) else _np.asarray(x)
        if a.dtype != object:
            return _np.linalg.norm(x, ord=ord, axis=axis, keepdims=keepdims)
        assert ord in (None, 2)
        if axis is None or a.ndim == 1:
            return _norm1(list(a.flat))
        assert a.ndim == 2
        rows = a if axis == 1 else a.T
        out = _np.empty(len(rows), dtype=object)
        for i, r in enumerate(rows):
            out[i] = _norm1(list(r))
        return out


def _norm1(vals):
    nz = [v for v in vals if _is_sym(v) or v != 0]
    if not nz:
        return 0.0
    if len(nz) == 1:
        return abs(nz[0])
    s = 0
    for v in nz:
        s = s + v * v
    return _sqrt(s)


def _sqrt(v):
    if isinstance(v, SReal):
        return v.sqrt()
    return _math.sqrt(v)


class SymNumpy:
    linalg = _Linalg()
    nan = _np.nan
    pi = _np.pi

    def __getattr__(self, name):
        return getattr(_np, name)

    @staticmethod
    def full(shape, fill_value, dtype=None):
        return _np.full(shape, fill_value, dtype=object).astype(object) if dtype is None else _np.full(shape, fill_value, dtype=dtype)

    @staticmethod
    def isnan(x):
        if isinstance(x, _np.ndarray) and x.dtype == object:
            out = _np.empty(x.shape, dtype=bool)
            for idx, v in _np.ndenumerate(x):
                out[idx] = (not _is_sym(v)) and isinstance(v, float) and _math.isnan(v)
            return out
        if _is_sym(x):
            return False
        return _np.isnan(x)

    @staticmethod
    def where(cond, a, b):
        if not (_has_sym(cond) or _has_sym(a) or _has_sym(b)):
            return _np.where(cond, a, b)
        cond_, a_, b_ = _np.broadcast_arrays(_np.asarray(cond, dtype=object), _np.asarray(a, dtype=object), _np.asarray(b, dtype=object))
        out = _np.empty(cond_.shape, dtype=object)
        for idx, c in _np.ndenumerate(cond_):
            out[idx] = a_[idx] if bool(c) else b_[idx]
        return out

    @staticmethod
    def _nanarg(x, better):
        x = _np.asarray(x)
        if x.dtype != object:
            return None
        flat = list(x.flat)
        cand = [i for i, v in enumerate(flat) if not (isinstance(v, float) and _math.isnan(v))]
        if not cand:
            raise ValueError("All-NaN slice encountered")
        # n-way branch with first-index tie-breaking
        for k in cand:
            conds = []
            for j in cand:
                if j == k:
                    continue
                c = better(flat[k], flat[j], strict=(j < k))
                conds.append(c)
            allc = SBool(symx.z3.BoolVal(True))
            for c in conds:
                allc = allc & c
            if bool(allc):
                return k
        raise symx.Infeasible()

    @classmethod
    def nanargmin(cls, x, axis=None):
        r = cls._nanarg(x, lambda a, b, strict: (a < b) if strict else (a <= b))
        return _np.nanargmin(x, axis=axis) if r is None else r

    @classmethod
    def nanargmax(cls, x, axis=None):
        r = cls._nanarg(x, lambda a, b, strict: (a > b) if strict else (a >= b))
        return _np.nanargmax(x, axis=axis) if r is None else r


np = SymNumpy()


class SymMath:
    pi = _math.pi

    def __getattr__(self, name):
        return getattr(_math, name)

    @staticmethod
    def sqrt(x):
        return _sqrt(x)

    @staticmethod
    def hypot(*xs):
        if any(_is_sym(x) for x in xs):
            s = 0
            for x in xs:
                s = s + x * x
            return _sqrt(s)
        return _math.hypot(*xs)


math = SymMath()


class SymArr(_np.ndarray):
    """Object ndarray whose comparison ufuncs are forced to concrete bool arrays (forking)."""

    def __array_ufunc__(self, ufunc, method, *inputs, out=None, **kw):
        inputs = tuple(i.view(_np.ndarray) if isinstance(i, SymArr) else i for i in inputs)
        if out is not None:
            kw["out"] = tuple(o.view(_np.ndarray) if isinstance(o, SymArr) else o for o in out)
        res = getattr(ufunc, method)(*inputs, **kw)
        if isinstance(res, _np.ndarray) and res.dtype == object:
            if res.size and all(isinstance(v, (SBool, bool, _np.bool_)) for v in res.flat):
                return _np.array([bool(v) for v in res.flat], dtype=bool).reshape(res.shape)
            return res.view(SymArr)
        return res


def symarray(a):
    return _np.asarray(a, dtype=object).view(SymArr)


def _inv(a):
    a = _np.asarray(a)
    if a.dtype != object:
        return _np.linalg.inv(a)
    n = a.shape[0]
    from fractions import Fraction
    import z3 as _z3
    def lift(v):
        return v if isinstance(v, SReal) else SReal(symx._lift(v))
    m = [[lift(a[i, j]) for j in range(n)] + [lift(1 if i == j else 0) for j in range(n)] for i in range(n)]
    for col in range(n):
        piv = None
        for r in range(col, n):
            if bool(m[r][col] != 0):
                piv = r
                break
        if piv is None:
            raise _np.linalg.LinAlgError("Singular matrix")
        m[col], m[piv] = m[piv], m[col]
        p = m[col][col]
        m[col] = [v / p for v in m[col]]
        for r in range(n):
            if r != col:
                f = m[r][col]
                m[r] = [vr - f * vc for vr, vc in zip(m[r], m[col])]
    out = _np.empty((n, n), dtype=object)
    for i in range(n):
        for j in range(n):
            out[i, j] = SReal(_z3.simplify(m[i][n + j].e, som=True))
    return out


_Linalg.inv = staticmethod(_inv)
_orig_eye = _np.eye
SymNumpy.eye = staticmethod(lambda n, *a, **k: _orig_eye(n, *a, **k).astype(object))
