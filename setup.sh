#!/bin/bash
# Build the overlay virtualenv used by every check: /venv's packages (repo deps) + z3-solver wheel.
# Offline: only /opt/veriftools/wheels is consulted.
set -e
cd "$(dirname "$0")"
V=/verif/.venv
if [ ! -x "$V/bin/python" ] || ! "$V/bin/python" -c "import z3, numpy, shapely, pyquaternion" 2>/dev/null; then
  rm -rf "$V"
  /venv/bin/python -m venv "$V"
  SP=$("$V/bin/python" -c "import site; print(site.getsitepackages()[0])")
  printf '%s\n%s\n' "import site; site.addsitedir('/venv/lib/python3.12/site-packages')" "/repo/perception_eval" > "$SP/verif_overlay.pth"
  PIP_NO_INDEX=1 "$V/bin/python" -m pip install -q --no-index --find-links /opt/veriftools/wheels z3-solver
fi
"$V/bin/python" -c "import z3, numpy; assert numpy.__version__.startswith('1.'), numpy.__version__; print('overlay ok: z3', z3.get_version_string(), 'numpy', numpy.__version__)"
