"""Command line: ./bin/check <ID> [--tier quick|thorough] [--replay path] [--only obligation] [--jobs N]"""
import argparse
import importlib
import logging
import os
import sys
import warnings

warnings.filterwarnings("ignore")
logging.disable(logging.CRITICAL)

HARNESS = {
    "C01": "c01_c02_matching", "C02": "c01_c02_matching", "C03": "c03_frame", "C04": "c04_ap", "C05": "c05_clear",
    "C06": "c06_scores", "C07": "c07_frames", "C08": "c08_monotone", "C09": "c09_heading", "C10": "c10_filter",
    "C11": "c11_classification", "C12": "c12_sensing", "C13": "c13_manager", "C14": "c14_labels",
    "C15": "c15_config", "C16": "c16_loader", "C17": "c17_lookup", "C18": "c18_transform", "C19": "c19_analysis", "C20": "c20_enums",
}


def main(argv=None):
    ap = argparse.ArgumentParser()
    ap.add_argument("pid")
    ap.add_argument("--tier", default=os.environ.get("VERIF_TIER", "quick"), choices=["quick", "thorough"])
    ap.add_argument("--replay")
    ap.add_argument("--only", action="append")
    ap.add_argument("--jobs", type=int, default=0)
    ap.add_argument("--case", type=int, default=None, help="debug: run a single case index of --only")
    a = ap.parse_args(argv)
    seed = int(os.environ.get("VERIF_SEED", "0") or 0)
    if (a.only or a.case is not None) and not a.replay and not os.environ.get("VERIF_OUT_DIR"):
        # a partial (debug) run must not overwrite the evidence file of the full check
        os.environ["VERIF_OUT_DIR"] = os.path.join("/tmp", f"verif_partial_{os.getuid()}")
    from . import runner

    mod = importlib.import_module(f"vt.harness.{HARNESS[a.pid]}")
    obligations = mod.obligations(a.pid, a.tier)
    meta = mod.meta(a.pid)
    if a.replay:
        return runner.replay(a.pid, obligations, a.replay)
    if a.only:
        obligations = [o for o in obligations if o.name in a.only]
        if a.case is not None:
            for o in obligations:
                o.cases = [o.cases[a.case]]
    return runner.run_property(a.pid, a.tier, obligations, meta, jobs=a.jobs or None, seed=seed)


if __name__ == "__main__":
    sys.exit(main())
