import warnings; warnings.filterwarnings("ignore")
import logging; logging.disable(logging.CRITICAL)
import tempfile, copy
from pyquaternion import Quaternion
from perception_eval.common.object import DynamicObject
from perception_eval.common.shape import Shape, ShapeType
from perception_eval.common.label import Label, AutowareLabel
from perception_eval.common.schema import FrameID
from perception_eval.common.dataset import FrameGroundTruth
from perception_eval.common.transform import HomogeneousMatrix
from perception_eval.config import PerceptionEvaluationConfig
import perception_eval.manager._evaluation_manager_base as MB
import perception_eval.manager.perception_evaluation_manager as MM
from perception_eval.evaluation.result.perception_frame_config import CriticalObjectFilterConfig, PerceptionPassFailConfig
CAR=AutowareLabel.CAR
def mk(x, conf=1.0, uuid="a"):
    return DynamicObject(0, FrameID.BASE_LINK,(x,0.,0.),Quaternion(),Shape(ShapeType.BOUNDING_BOX,(1.,1.,1.)),None,conf,Label(CAR,"car"),pointcloud_num=10,uuid=uuid)
frames=[FrameGroundTruth(0,"0",[mk(5.0,uuid="g0"),mk(50.0,uuid="g1")],transforms=[HomogeneousMatrix((0,0,0),(1,0,0,0),FrameID.BASE_LINK,FrameID.MAP)])]
MB.load_all_datasets=lambda **kw: frames
class NoViz:
    def __init__(self,*a,**k): pass
MM.PerceptionVisualizer3D=NoViz; MM.PerceptionVisualizer2D=NoViz
d=tempfile.mkdtemp()
cfg=PerceptionEvaluationConfig([], "base_link", d, dict(evaluation_task="detection", target_labels=["car"], max_x_position=100.0, max_y_position=100.0, min_point_numbers=[0], label_prefix="autoware", center_distance_thresholds=[[1.0]], plane_distance_thresholds=[2.0], iou_2d_thresholds=[0.5], iou_3d_thresholds=[0.5]))
mgr=MM.PerceptionEvaluationManager(cfg)
def run(maxx):
    gt=mgr.get_ground_truth_now_frame(0)
    crit=CriticalObjectFilterConfig(cfg,["car"],max_x_position_list=[maxx],max_y_position_list=[100.0])
    pf=PerceptionPassFailConfig(cfg,["car"],matching_threshold_list=[2.0])
    r=mgr.add_frame_result(0,gt,[mk(5.1,0.9,"e0"),mk(50.1,0.8,"e1")],crit,pf)
    return len(r.pass_fail_result.tp_object_results), len(r.pass_fail_result.fn_objects), len(mgr.ground_truth_frames[0].objects), r.metrics_score.maps[0].map
print("wide  ", run(100.0))
print("narrow", run(10.0))
print("wide  ", run(100.0))
import shutil; shutil.rmtree(d)
