"""Exploration driver: obligations -> cases -> exhaustive path exploration -> verdict, replay, evidence."""
from __future__ import annotations

import hashlib
import json
import math
import multiprocessing as mp
import os
import random
import sys
import time
import traceback
from fractions import Fraction

import z3

from . import shim, symx
from .symx import L, SBool, SReal

VERIF = os.path.dirname(os.path.dirname(os.path.abspath(__file__)))
# evidence / replay output directory: /verif itself, except for self-test runs on a scratch copy of the repository
OUT = os.environ.get("VERIF_OUT_DIR") or VERIF
EXIT_OK, EXIT_VIOLATION, EXIT_INCONCLUSIVE, EXIT_HARNESS = 0, 1, 2, 3


class Out:
    """What a harness returns at the end of one path.

    prop   : bool-ish (python bool / SBool) - the obligation; or `parts` (dict name -> bool-ish)
    obs    : json-able structure of *observable results* used for witness validation
    known  : dict finding-id -> region predicate over the harness inputs (bool-ish)
    """

    def __init__(self, prop=None, parts=None, obs=None, known=None):
        if parts is not None:
            self.parts = dict(parts)
        else:
            self.parts = {"prop": prop}
        self.obs = obs
        self.known = known or {}

    @property
    def prop(self):
        return L.And(*self.parts.values()) if self.parts else True


class Obligation:
    def __init__(
        self,
        name,
        fn,
        cases=None,
        desc="",
        extras=None,
        use_shims=True,
        max_paths=200000,
        timeout_ms=20000,
        witness_every=1,
        max_cex=2,
        split_depth=0,
    ):
        self.name = name
        self.fn = fn
        self.cases = cases if cases is not None else [{}]
        self.desc = desc
        self.extras = extras  # callable -> list of (module, attr, value)
        self.use_shims = use_shims
        self.max_paths = max_paths
        self.timeout_ms = timeout_ms
        self.witness_every = witness_every
        self.max_cex = max_cex
        self.split_depth = split_depth  # >0: split each case's decision tree at this depth across processes


# ----------------------------------------------------------------------------------------------


def _to_float(v):
    if isinstance(v, Fraction):
        return float(v)
    return v


def norm_obs(obs, model):
    """Make an observation structure concrete (symbolic leaves evaluated under `model`)."""
    if isinstance(obs, SBool):
        return bool(z3.is_true(model.eval(obs.e, model_completion=True)))
    if isinstance(obs, SReal):
        v = model.eval(obs.e, model_completion=True)
        if z3.is_int_value(v):
            return float(v.as_long())
        if z3.is_rational_value(v):
            return float(v.as_fraction())
        if z3.is_algebraic_value(v):
            return float(v.approx(20).as_fraction())
        return str(v)
    if isinstance(obs, dict):
        return {str(k): norm_obs(v, model) for k, v in obs.items()}
    if isinstance(obs, (list, tuple)):
        return [norm_obs(v, model) for v in obs]
    if isinstance(obs, (bool, str)) or obs is None:
        return obs
    if isinstance(obs, int):
        return obs
    if isinstance(obs, float):
        return obs
    if hasattr(obs, "item"):
        return norm_obs(obs.item(), model)
    if isinstance(obs, Fraction):
        return float(obs)
    return repr(obs)


def norm_obs_concrete(obs):
    if isinstance(obs, dict):
        return {str(k): norm_obs_concrete(v) for k, v in obs.items()}
    if isinstance(obs, (list, tuple)):
        return [norm_obs_concrete(v) for v in obs]
    if isinstance(obs, (bool, str)) or obs is None:
        return obs
    if isinstance(obs, int):
        return obs
    if isinstance(obs, float):
        return obs
    if hasattr(obs, "item"):
        return norm_obs_concrete(obs.item())
    if isinstance(obs, Fraction):
        return float(obs)
    return repr(obs)


def obs_equal(a, b, tol=1e-6):
    if isinstance(a, bool) or isinstance(b, bool):
        return a is b or a == b and type(a) == type(b)
    if isinstance(a, (int, float)) and isinstance(b, (int, float)):
        if isinstance(a, float) and math.isnan(a) or isinstance(b, float) and math.isnan(b):
            return isinstance(a, float) and isinstance(b, float) and math.isnan(a) and math.isnan(b)
        if math.isinf(a) or math.isinf(b):
            return a == b
        return abs(a - b) <= tol * max(1.0, abs(a), abs(b))
    if isinstance(a, dict) and isinstance(b, dict):
        return a.keys() == b.keys() and all(obs_equal(a[k], b[k], tol) for k in a)
    if isinstance(a, list) and isinstance(b, list):
        return len(a) == len(b) and all(obs_equal(x, y, tol) for x, y in zip(a, b))
    return a == b


def run_concrete(ob, params, inputs):
    """Run the harness on concrete inputs against the real (unshimmed) libraries."""
    prev = symx.CTX
    ctx = symx.ConcreteCtx(inputs)
    ctx.presets = params.get("_presets")
    params = {k: v for k, v in params.items() if not k.startswith("_")}
    symx.set_ctx(ctx)
    try:
        with shim.off():
            try:
                out = ob.fn(**params)
            except symx.AssumptionFailed:
                return None, "assumption_failed"
            except Exception as e:  # the code under test raised something the harness does not anticipate
                return None, f"exception:{type(e).__name__}"
        parts = {k: bool(v) for k, v in out.parts.items()}
        known = {k: bool(v) for k, v in out.known.items()}
        return {"parts": parts, "known": known, "obs": norm_obs_concrete(out.obs), "choices": dict(ctx.choices)}, None
    finally:
        symx.set_ctx(prev)


def _listed_findings(pid):
    path = os.path.join(VERIF, "known_findings.json")
    if not os.path.exists(path):
        return {}
    with open(path) as f:
        data = json.load(f)
    return {e["id"]: e for e in data.get("findings", []) if e.get("property") == pid}


def probe_case(ob, params, depth, prefix=None):
    """Enumerate the feasible decision prefixes of length `depth` (or shorter complete paths) of one case,
    below `prefix` if given."""
    ctx = symx.Ctx(timeout_ms=ob.timeout_ms)
    ctx.presets = params.get("_presets")
    ctx.cut_depth = depth
    if prefix:
        ctx.prefix = [[bool(d), False] for d in prefix]
    fn_params = {k: v for k, v in params.items() if not k.startswith("_")}
    symx.set_ctx(ctx)
    extras = ob.extras() if ob.extras else ()
    if ob.use_shims:
        shim.install(extras)
    prefixes = []
    try:
        while True:
            ctx.begin()
            try:
                ob.fn(**fn_params)
                prefixes.append([e[0] for e in ctx.prefix])
            except symx.Cut:
                prefixes.append([e[0] for e in ctx.prefix])
            except symx.Infeasible:
                pass
            except Exception:
                prefixes.append([e[0] for e in ctx.prefix])  # let the real exploration report it
            ctx.end()
            if not ctx.backtrack():
                break
    finally:
        if ob.use_shims:
            shim.uninstall()
        symx.set_ctx(None)
    return prefixes


def explore_case(ob, params, pid, tier, budget=0):
    """Exhaustively explore one case of one obligation (or, with a budget, a part of it: the rest is returned
    as `pending` decision prefixes). Returns a stats dict."""
    st = {
        "obligation": ob.name,
        "params": _jsonable(params),
        "paths": 0,
        "nontrivial": 0,
        "infeasible": 0,
        "decisions": 0,
        "queries": 0,
        "solver_s": 0.0,
        "unknown_final": 0,
        "unknown_feas": 0,
        "violations": [],
        "nonrepro": [],
        "known_hits": {},
        "witness_ok": 0,
        "witness_mismatch": [],
        "witness_skipped": 0,
        "samples": [],
        "reach": False,
        "error": None,
        "truncated": False,
        "wall_s": 0.0,
        "patched": [],
    }
    t0 = time.time()
    listed = _listed_findings(pid)
    ctx = symx.Ctx(timeout_ms=ob.timeout_ms)
    ctx.presets = params.get("_presets")
    if params.get("_prefix"):
        ctx.prefix = [[bool(d), False] for d in params["_prefix"]]  # explore only the subtree below this prefix
    fn_params = {k: v for k, v in params.items() if not k.startswith("_")}
    symx.set_ctx(ctx)
    extras = ob.extras() if ob.extras else ()
    if ob.use_shims:
        shim.install(extras)
        st["patched"] = list(shim.PATCHED)
    try:
        while True:
            ctx.begin()
            out = None
            try:
                out = ob.fn(**fn_params)
            except symx.Infeasible:
                st["infeasible"] += 1
            except Exception as e:
                tb = traceback.format_exc()
                if not _unexpected_exception(ob, params, ctx, e, st):
                    st["error"] = tb
                    ctx.end()
                    break
            if out is not None:
                st["paths"] += 1
                if ctx.nontrivial:
                    st["nontrivial"] += 1
                try:
                    _finish_path(ob, params, pid, ctx, out, st, listed)
                except Exception:
                    st["error"] = traceback.format_exc()
                    ctx.end()
                    break
            ctx.end()
            if len(st["violations"]) >= ob.max_cex:
                st["truncated"] = True
                break
            if st["paths"] >= ob.max_paths:
                st["truncated"] = True
                st["error"] = f"path budget {ob.max_paths} exhausted"
                break
            if budget and time.time() - t0 >= budget:
                # hand the unexplored part of this subtree back to the driver (dynamic load balancing)
                dec = [e[0] for e in ctx.prefix]
                st["pending"] = [dec[:i] + [not dec[i]] for i, e in enumerate(ctx.prefix) if e[1]]
                break
            if not ctx.backtrack():
                break
    finally:
        if ob.use_shims:
            shim.uninstall()
        symx.set_ctx(None)
    st["decisions"] = ctx.n_decisions
    st["queries"] = ctx.n_checks
    st["solver_s"] = round(ctx.t_solver, 3)
    st["unknown_feas"] = ctx.n_unknown_feas
    st["wall_s"] = round(time.time() - t0, 3)
    return st


def _unexpected_exception(ob, params, ctx, exc, st):
    """The code under test raised an exception the harness does not anticipate.  If the real (unshimmed)
    code raises the same exception type on a witness of this path it is reported as a violation
    (the obligations cannot even be evaluated); otherwise it is a harness error."""
    model = ctx.model
    if model is None:
        # the path got here through branches whose feasibility query timed out ("unknown" counts as feasible while
        # exploring): decide it now with the full timeout, then with nlsat, before believing the exception
        v = _decide_part(ctx, z3.BoolVal(True))
        if v == "unsat":
            st["infeasible"] += 1
            return True
        if v != "sat":
            st["unknown_final"] += 1
            st.setdefault("unknown_detail", []).append({"params": _jsonable(params), "exception_on_undecided_path":
                                                        f"{type(exc).__name__}: {exc}"[:200]})
            return True
        r = ctx.check()
        if r != z3.sat:
            st["unknown_final"] += 1
            return True
        model = ctx.solver.model()
    inputs = symx.model_inputs(ctx, model)
    conc, why = run_concrete(ob, params, inputs)
    if conc is None and why == f"exception:{type(exc).__name__}":
        st["paths"] += 1
        st["reach"] = True
        st["violations"].append({"obligation": ob.name, "params": _jsonable(params), "inputs": inputs,
                                 "failing": [f"unexpected_{type(exc).__name__}"], "choices": dict(ctx.choices),
                                 "concrete_failing": [f"unexpected_{type(exc).__name__}: {exc}"[:300]], "obs": None})
        return True
    if conc is not None and not all(conc["parts"].values()) and not any(conc["known"].values()):
        # symbolic execution stopped (an operation outside what the stand-ins support, reached only by changed code),
        # but the real code, run on the witness of the path explored so far, violates the obligation: that is a
        # violation demonstrated on the real code - reported as such, and labelled as not solver-decided
        st["paths"] += 1
        st["reach"] = True
        failing = [k for k, v in conc["parts"].items() if not v]
        st["violations"].append({"obligation": ob.name, "params": _jsonable(params), "inputs": inputs, "failing": failing,
                                 "choices": dict(ctx.choices), "concrete_failing": failing, "obs": conc["obs"],
                                 "found_by": "real code at the witness of the path on which symbolic execution stopped "
                                             f"({type(exc).__name__}: {exc})"[:400]})
        return True
    return False


def _finish_path(ob, params, pid, ctx, out, st, listed):
    parts = {k: L.b(v) for k, v in out.parts.items()}
    prop = z3.And(*parts.values()) if parts else z3.BoolVal(True)
    regions = {fid: L.b(r) for fid, r in out.known.items() if fid in listed}
    excl = z3.Or(*regions.values()) if regions else z3.BoolVal(False)

    # 0. path feasibility witness (reachability twin: `assert False` here must be violated)
    model = ctx.model
    if model is None:
        r = ctx.check()
        if r == z3.sat:
            model = ctx.solver.model()
        elif r == z3.unsat:
            st["paths"] -= 1
            st["infeasible"] += 1
            return
    if model is not None:
        st["reach"] = True

    # 1. the obligation, outside the regions of listed findings
    q = z3.simplify(z3.And(z3.Not(prop), z3.Not(excl)), som=True)
    if not z3.is_false(q):
        r = ctx.check(q)
        if r == z3.sat:
            # replay on the real code; a model sitting exactly on a decision boundary may behave differently
            # in doubles, so a few further models of the same query are tried before giving up
            ctx.solver.push()
            ctx.solver.add(q)
            try:
                first = None
                for attempt in range(5):
                    r = ctx.check()
                    if r != z3.sat:
                        if attempt == 0:
                            first = {"obligation": ob.name, "params": _jsonable(params), "inputs": {},
                                     "why": "solver could not re-establish the counterexample model"}
                        break
                    m = ctx.solver.model()
                    inputs = symx.model_inputs(ctx, m)
                    failing = [k for k, v in parts.items() if z3.is_false(m.eval(v, model_completion=True))]
                    rec = {"obligation": ob.name, "params": _jsonable(params), "inputs": inputs, "failing": failing,
                           "choices": dict(ctx.choices)}
                    conc, why = run_concrete(ob, params, inputs)
                    if conc is not None and not all(conc["parts"].values()) and not any(
                        conc["known"].get(f) for f in regions
                    ):
                        rec["concrete_failing"] = [k for k, v in conc["parts"].items() if not v]
                        rec["obs"] = conc["obs"]
                        st["violations"].append(rec)
                        first = None
                        break
                    rec["why"] = why or "property holds on the real code for the solver's inputs"
                    first = first or rec
                    block = [var != m.eval(var, model_completion=True) for _n, (kind, var) in ctx.inputs.items()
                             if kind == "real"]
                    if not block:
                        break
                    ctx.solver.add(z3.And(*block))
                if first is not None:
                    st["nonrepro"].append(first)
            finally:
                ctx.solver.pop()
        elif r == z3.unknown:
            # fall back to one query per part (smaller), then to nlsat on the path's assertions
            verdicts = [_decide_part(ctx, z3.And(z3.Not(pv), z3.Not(excl))) for pv in parts.values()]
            if any(v == "sat" for v in verdicts):
                st["unknown_final"] += 1  # a per-part model exists; keep it inconclusive rather than guessing
                st.setdefault("unknown_detail", []).append({"params": _jsonable(params), "sat_part": True})
            elif any(v == "unknown" for v in verdicts):
                st["unknown_final"] += 1
                st.setdefault("unknown_detail", []).append(
                    {"params": _jsonable(params), "parts": [k for k, v in zip(parts, verdicts) if v == "unknown"]})

    # 2. listed findings: still reproducible?
    for fid, reg in regions.items():
        if st["known_hits"].get(fid):
            continue
        q2 = z3.simplify(z3.And(z3.Not(prop), reg), som=True)
        if z3.is_false(q2):
            continue
        r = ctx.check(q2)
        if r == z3.sat:
            m = ctx.solver.model()
            inputs = symx.model_inputs(ctx, m)
            conc, why = run_concrete(ob, params, inputs)
            if conc is not None and not all(conc["parts"].values()) and conc["known"].get(fid):
                st["known_hits"][fid] = {"inputs": inputs, "params": _jsonable(params),
                                         "failing": [k for k, v in conc["parts"].items() if not v]}

    # 3. witness validation of the explored path against the unshimmed implementation
    #    (also evaluates `aux_` obligations on the real code at the witness)
    if model is not None and out.obs is not None:
        if (st["paths"] - 1) % max(1, ob.witness_every) == 0:
            inputs = symx.model_inputs(ctx, model)
            sym_obs = norm_obs(out.obs, model)
            conc, why = run_concrete(ob, params, inputs)
            if conc is None and why and why.startswith("exception:"):
                st["witness_mismatch"].append({"inputs": inputs, "symbolic": sym_obs, "concrete": why,
                                               "params": _jsonable(params)})
            elif conc is None:
                st["witness_skipped"] += 1
            elif any(k.startswith("aux_") and not v for k, v in conc["parts"].items()) and not any(
                    conc["known"].get(f) for f in regions):
                # auxiliary obligations (layers no symbolic value can pass through, e.g. pandas) are evaluated on the
                # real code at the solver-generated witness of every explored path; a failure there is a violation
                # demonstrated on the real code
                st["violations"].append({"obligation": ob.name, "params": _jsonable(params), "inputs": inputs,
                                         "failing": [k for k, v in conc["parts"].items() if not v],
                                         "choices": dict(ctx.choices), "obs": conc["obs"], "found_by": "path witness",
                                         "concrete_failing": [k for k, v in conc["parts"].items() if not v]})
                st["aux_checked"] = st.get("aux_checked", 0) + 1
            elif obs_equal(sym_obs, conc["obs"]):
                st["witness_ok"] += 1
                if any(k.startswith("aux_") for k in conc["parts"]):
                    st["aux_checked"] = st.get("aux_checked", 0) + 1
                    if any(k.startswith("aux_") and not v for k, v in conc["parts"].items()):
                        for fid in regions:  # a listed finding, reproduced on the real code at this witness
                            if conc["known"].get(fid) and not st["known_hits"].get(fid):
                                st["known_hits"][fid] = {"inputs": inputs, "params": _jsonable(params),
                                                         "failing": [k for k, v in conc["parts"].items() if not v]}
            else:
                # a model on a decision boundary may legitimately differ in doubles: retry with
                # another model of the same path before calling it a disagreement
                ok = False
                n_feasible = None
                base = model
                # a disagreement only counts at a point that satisfies the path condition with a margin: on a decision
                # boundary the exact-real model and a run in doubles may legitimately take different branches
                interior_mismatch = _is_interior(ctx, model)
                # first: a model that satisfies every top-level inequality of the path condition with a margin
                for eps in (1e-3, 1e-6):
                    cand = _interior_model(ctx, eps)
                    if cand is None:
                        continue
                    inputs2 = symx.model_inputs(ctx, cand)
                    conc2, _ = run_concrete(ob, params, inputs2)
                    if conc2 is not None and obs_equal(norm_obs(out.obs, cand), conc2["obs"]):
                        ok = True
                        break
                    interior_mismatch = interior_mismatch or (conc2 is not None and _is_interior(ctx, cand))
                for attempt in range(0 if ok else 4):
                    alt = _alt_model(ctx, base, attempt)
                    if alt is None:
                        break
                    # first an interior point (midpoint of two models of the path), then the other model itself
                    for cand in (_midpoint_model(ctx, model, alt), alt):
                        if cand is None:
                            continue
                        inputs2 = symx.model_inputs(ctx, cand)
                        conc2, _ = run_concrete(ob, params, inputs2)
                        if conc2 is not None and obs_equal(norm_obs(out.obs, cand), conc2["obs"]):
                            ok = True
                            break
                        interior_mismatch = interior_mismatch or (conc2 is not None and _is_interior(ctx, cand))
                    if ok:
                        break
                    base = alt
                if not ok:
                    # z3 likes vertices of the path region; look for an interior point by random perturbation
                    rng = random.Random(1234567 + st["paths"])
                    reals = [n for n, (k, _v) in ctx.inputs.items() if k == "real"]
                    plan = [(n, sg * sc) for sc in (1e-3, 1e-1, 1e-5) for n in reals for sg in (1, -1)]
                    plan += [(None, 10.0 ** -(1 + a % 4)) for a in range(12)]
                    n_feasible = 0
                    for only, scale in plan:
                        cand = _perturbed_model(ctx, model, rng, scale, only)
                        if cand is None:
                            continue
                        n_feasible += 1
                        inputs2 = symx.model_inputs(ctx, cand)
                        conc2, _ = run_concrete(ob, params, inputs2)
                        if conc2 is not None and obs_equal(norm_obs(out.obs, cand), conc2["obs"]):
                            ok = True
                            break
                        interior_mismatch = interior_mismatch or (conc2 is not None and _is_interior(ctx, cand))
                if ok:
                    st["witness_ok"] += 1
                elif n_feasible == 0 or not interior_mismatch:
                    # the path region has empty interior around its models (ties / exact equalities): every nearby
                    # point leaves it, so a run in doubles cannot be expected to follow this path
                    st["witness_skipped"] += 1
                    st.setdefault("witness_degenerate", 0)
                    st["witness_degenerate"] += 1
                else:
                    st["witness_mismatch"].append(
                        {"inputs": inputs, "symbolic": sym_obs, "concrete": conc["obs"], "params": _jsonable(params)}
                    )
        else:
            st["witness_skipped"] += 1
    if len(st["samples"]) < 2 and model is not None:
        st["samples"].append(
            {"obligation": ob.name, "params": _jsonable(params), "choices": dict(ctx.choices),
             "witness_inputs": symx.model_inputs(ctx, model), "path_decisions": len(ctx.prefix)}
        )


def _decide_part(ctx, q):
    q = z3.simplify(q, som=True)
    if z3.is_false(q):
        return "unsat"
    r = ctx.check() if z3.is_true(q) else ctx.check(q)
    if r == z3.unknown:
        t0 = time.time()
        s2 = z3.Tactic("qfnra-nlsat").solver()
        s2.set("timeout", 30000)
        s2.add(ctx.solver.assertions())
        s2.add(q)
        try:
            r = s2.check()
        except z3.Z3Exception:
            r = z3.unknown
        ctx.t_solver += time.time() - t0
        ctx.n_checks += 1
    return "sat" if r == z3.sat else ("unsat" if r == z3.unsat else "unknown")


def _alt_model(ctx, model, attempt):
    """Another model of the current path, pushing real inputs off the previous values."""
    cons = []
    for name, (kind, var) in ctx.inputs.items():
        if kind == "real":
            v = model.eval(var, model_completion=True)
            cons.append(var != v)
    if not cons:
        return None
    ctx.solver.push()
    try:
        ctx.solver.add(z3.And(*cons))
        r = ctx.check()
        return ctx.solver.model() if r == z3.sat else None
    finally:
        ctx.solver.pop()


def _strengthen(a, eps, neg=False):
    """`a` with every arithmetic comparison in a monotone position (through And / Or / Not) tightened by eps; anything
    else unchanged.  A model of the result satisfies `a` with a margin."""
    t = a
    if z3.is_not(t):
        return _strengthen(t.arg(0), eps, not neg)
    if z3.is_and(t) or z3.is_or(t):
        kids = [_strengthen(c, eps, neg) for c in t.children()]
        return (z3.Or if (z3.is_and(t) == neg) else z3.And)(*kids)
    if not (z3.is_app(t) and t.num_args() == 2 and z3.is_arith(t.arg(0))):
        return z3.Not(a) if neg else a
    x, y = t.arg(0), t.arg(1)
    if z3.is_int(x) and z3.is_int(y):
        return z3.Not(a) if neg else a
    k = t.decl().kind()
    e = z3.RealVal(str(Fraction(eps).limit_denominator(10**12)))
    lt, le, gt, ge = z3.Z3_OP_LT, z3.Z3_OP_LE, z3.Z3_OP_GT, z3.Z3_OP_GE
    if (k in (lt, le) and not neg) or (k in (gt, ge) and neg):
        return x + e <= y
    if (k in (gt, ge) and not neg) or (k in (lt, le) and neg):
        return x >= y + e
    if k == z3.Z3_OP_DISTINCT or (k == z3.Z3_OP_EQ and neg):
        return z3.Or(x + e <= y, x >= y + e)
    return z3.Not(a) if neg else a


def _is_interior(ctx, model, eps=1e-9):
    """does `model` satisfy every comparison of the path condition with a margin (so that a run in doubles cannot
    legitimately take another branch)?"""
    try:
        for a in ctx.solver.assertions():
            if not z3.is_true(model.eval(_strengthen(a, eps), model_completion=True)):
                return False
        return True
    except z3.Z3Exception:
        return False


def _interior_model(ctx, eps):
    """A model of the current path in which every inequality holds with margin eps (None if there is none / undecided)."""
    t0 = time.time()
    r, s2 = z3.unknown, None
    for ms, mk in ((5000, z3.Solver), (20000, lambda: z3.Tactic("qfnra-nlsat").solver())):
        s2 = mk()
        s2.set("timeout", ms)
        for a in ctx.solver.assertions():
            s2.add(_strengthen(a, eps))
        try:
            r = s2.check()
        except z3.Z3Exception:
            r = z3.unknown
        ctx.n_checks += 1
        if r != z3.unknown:
            break
    ctx.t_solver += time.time() - t0
    return s2.model() if r == z3.sat else None


def _perturbed_model(ctx, m1, rng, scale, only=None):
    """A model of the current path near `m1`: one real input moved by `scale` (relative), or all of them
    randomly; None if that point is outside the path region."""
    cons = []
    for name, (kind, var) in ctx.inputs.items():
        if kind == "str":
            continue
        v1 = m1.eval(var, model_completion=True)
        if kind == "real" and z3.is_rational_value(v1):
            f = v1.as_fraction()
            if only is None:
                delta = Fraction(rng.uniform(-1, 1) * scale * max(1.0, abs(float(f)))).limit_denominator(10**6)
            elif only == name:
                delta = Fraction(scale * max(1.0, abs(float(f)))).limit_denominator(10**7)
            else:
                delta = 0
            cons.append(var == symx.frac_to_z3(f + delta))
        elif kind in ("int", "choice"):
            cons.append(var == v1)
    if not cons:
        return None
    ctx.solver.push()
    try:
        ctx.solver.add(z3.And(*cons))
        r = ctx.check()
        return ctx.solver.model() if r == z3.sat else None
    finally:
        ctx.solver.pop()


def _midpoint_model(ctx, m1, m2):
    """A model of the current path whose real inputs are the midpoints of two models (an interior point
    when the path region is convex); None when the midpoint leaves the region."""
    cons = []
    for name, (kind, var) in ctx.inputs.items():
        v1 = m1.eval(var, model_completion=True) if kind != "str" else None
        if kind == "real":
            v2 = m2.eval(var, model_completion=True)
            if z3.is_rational_value(v1) and z3.is_rational_value(v2):
                mid = (v1.as_fraction() + v2.as_fraction()) / 2
                cons.append(var == symx.frac_to_z3(mid))
        elif kind in ("int", "choice"):
            cons.append(var == v1)
    if not cons:
        return None
    ctx.solver.push()
    try:
        ctx.solver.add(z3.And(*cons))
        r = ctx.check()
        return ctx.solver.model() if r == z3.sat else None
    finally:
        ctx.solver.pop()


def _jsonable(x):
    if isinstance(x, dict):
        return {str(k): _jsonable(v) for k, v in x.items()}
    if isinstance(x, (list, tuple)):
        return [_jsonable(v) for v in x]
    if isinstance(x, (str, int, float, bool)) or x is None:
        return x
    if isinstance(x, Fraction):
        return f"{x.numerator}/{x.denominator}"
    return getattr(x, "name", None) or repr(x)


# ----------------------------------------------------------------------------------------------
# parallel driver

_OBS = []
_BUDGET = 0
_TIMED_OUT = []


def _enough_violations(results):
    return sum(len(r[2].get("violations", [])) for r in results) >= 12


def _probe(item):
    oi, ci, depth, prefix = item
    ob = _OBS[oi]
    try:
        return oi, ci, probe_case(ob, ob.cases[ci], depth, prefix)
    except BaseException:
        return oi, ci, [prefix or []]


def _work(item):
    oi, ci, pid, tier = item[:4]
    ob = _OBS[oi]
    case = ob.cases[ci]
    if len(item) > 4 and item[4] is not None:
        case = dict(case, _prefix=item[4])
    try:
        return oi, ci, explore_case(ob, case, pid, tier, budget=_BUDGET)
    except BaseException:
        return oi, ci, {"obligation": ob.name, "params": _jsonable(ob.cases[ci]), "error": traceback.format_exc(),
                        "paths": 0, "violations": [], "nonrepro": [], "known_hits": {}, "witness_mismatch": []}


def run_property(pid, tier, obligations, meta, jobs=None, seed=0):
    """Run every case of every obligation; write evidence; print verdict lines; return exit code."""
    global _OBS
    t0 = time.time()
    _OBS = obligations
    items = [(oi, ci, pid, tier, None) for oi, ob in enumerate(obligations) for ci in range(len(ob.cases))
             if not ob.split_depth]
    njobs = jobs or int(os.environ.get("VERIF_JOBS", "0")) or min(16, os.cpu_count() or 4)
    # decision-prefix splitting, in levels so that the probing itself is spread over the pool
    frontier = [(oi, ci, None) for oi, ob in enumerate(obligations) for ci in range(len(ob.cases)) if ob.split_depth]
    for level in (0, 1, 2):
        todo, done = [], []
        for oi, ci, pre in frontier:
            full = obligations[oi].split_depth
            depth = [max(1, full // 3), max(1, 2 * full // 3), full][level] if full >= 9 else full
            if pre is not None and len(pre) < (0 if level == 0 else [max(1, full // 3), max(1, 2 * full // 3), full][level - 1] if full >= 9 else full):
                done.append((oi, ci, pre))  # a complete path shorter than the previous cut: nothing below it
            elif full < 9 and level > 0:
                done.append((oi, ci, pre))
            else:
                todo.append((oi, ci, depth, pre))
        if todo:
            if njobs == 1:
                probed = [_probe(it) for it in todo]
            else:
                with mp.get_context("fork").Pool(min(njobs, len(todo))) as pool:
                    probed = list(pool.imap_unordered(_probe, todo, chunksize=1))
            frontier = done + [(oi, ci, pre) for oi, ci, prefixes in probed for pre in prefixes]
        else:
            frontier = done
    for oi, ci, pre in frontier:
        items.append((oi, ci, pid, tier, pre))
    def _cost(it):  # biggest cases first, so that the pool does not end on a long straggler
        c = obligations[it[0]].cases[it[1]]
        return -sum(v for k, v in c.items() if k in ("n", "m", "k", "N", "F", "R") and isinstance(v, int)) + (
            0.5 if "_presets" in c else 0)

    items.sort(key=_cost)
    jobs = jobs or int(os.environ.get("VERIF_JOBS", "0")) or min(16, os.cpu_count() or 4)
    global _BUDGET
    _BUDGET = float(os.environ.get("VERIF_BUDGET_S", "5"))  # seconds per work item before the rest is re-queued
    results = []
    from collections import deque
    queue = deque(items)
    if jobs == 1:
        while queue:
            it = queue.popleft()
            r = _work(it)
            results.append(r)
            for pre in r[2].pop("pending", []):
                queue.append((it[0], it[1], it[2], it[3], pre))
    else:
        ctx = mp.get_context("fork")
        deadline = t0 + float(os.environ.get("VERIF_MAX_WALL_S", "900" if tier == "quick" else "14400"))
        with ctx.Pool(jobs, maxtasksperchild=256) as pool:
            running = []
            last_note = time.time()
            while queue or running:
                if time.time() - last_note > 120:  # progress note (stderr) for long runs
                    last_note = time.time()
                    print(f"[{pid}] progress: {int(last_note - t0)} s, work items done={len(results)} queued={len(queue)} "
                          f"running={len(running)} paths={sum(r[2].get('paths', 0) for r in results)} "
                          f"violations={sum(len(r[2].get('violations', [])) for r in results)}", file=sys.stderr, flush=True)
                if time.time() > deadline or (_enough_violations(results) and time.time() > t0 + 20):
                    # wall-clock limit (or plenty of confirmed violations already): stop; unexplored work is reported
                    _TIMED_OUT.append(len(queue) + len(running))
                    pool.terminate()
                    break
                while queue and len(running) < jobs * 3:
                    it = queue.popleft()
                    running.append((it, pool.apply_async(_work, (it,))))
                still = []
                for it, ar in running:
                    if ar.ready():
                        r = ar.get()
                        results.append(r)
                        for pre in r[2].pop("pending", []):
                            queue.appendleft((it[0], it[1], it[2], it[3], pre))
                    else:
                        still.append((it, ar))
                running = still
                if running and not (queue and len(running) < jobs * 3):
                    time.sleep(0.01)
    results.sort(key=lambda r: (r[0], r[1]))
    return _report(pid, tier, obligations, results, meta, time.time() - t0, seed)


def _report(pid, tier, obligations, results, meta, wall, seed):
    listed = _listed_findings(pid)
    agg = {k: 0 for k in ("paths", "nontrivial", "infeasible", "decisions", "queries", "unknown_final",
                            "unknown_feas", "witness_ok", "witness_skipped", "aux_checked", "witness_degenerate")}
    solver_s = 0.0
    violations, nonrepro, mismatches, errors, samples = [], [], [], [], []
    known_hits = {}
    per_ob = {}
    patched = set()
    for oi, ci, st in results:
        ob = obligations[oi]
        po = per_ob.setdefault(ob.name, {"cases": 0, "paths": 0, "queries": 0, "solver_s": 0.0, "reach": False,
                                         "violations": 0, "desc": ob.desc})
        po["cases"] += 1
        po["paths"] += st.get("paths", 0)
        po["queries"] += st.get("queries", 0)
        po["solver_s"] = round(po["solver_s"] + st.get("solver_s", 0.0), 3)
        po["reach"] = po["reach"] or st.get("reach", False)
        po["violations"] += len(st.get("violations", []))
        for k in agg:
            agg[k] += st.get(k, 0)
        solver_s += st.get("solver_s", 0.0)
        violations += st.get("violations", [])
        nonrepro += st.get("nonrepro", [])
        mismatches += st.get("witness_mismatch", [])
        if st.get("error"):
            errors.append({"obligation": ob.name, "params": st.get("params"), "error": st["error"]})
        for fid, h in st.get("known_hits", {}).items():
            known_hits.setdefault(fid, h)
        if len(samples) < 6:
            samples += st.get("samples", [])[:1]
        patched.update(st.get("patched", []))
    vacuous = [name for name, po in per_ob.items() if not po["reach"]]
    slowest = sorted(({"obligation": obligations[oi].name, "params": st.get("params"), "wall_s": st.get("wall_s", 0),
                       "paths": st.get("paths", 0), "solver_s": st.get("solver_s", 0)} for oi, ci, st in results),
                     key=lambda d: -d["wall_s"])[:5]

    # replay files + verdict lines
    os.makedirs(os.path.join(OUT, "replays"), exist_ok=True)
    lines = []
    seen = set()
    for v in violations:
        key = json.dumps({"o": v["obligation"], "p": v["params"], "i": v["inputs"]}, sort_keys=True)
        dig = hashlib.sha256(key.encode()).hexdigest()[:12]
        if dig in seen or len(seen) >= 5:
            continue
        seen.add(dig)
        path = os.path.join(OUT, "replays", f"{pid}-{v['obligation']}-{dig}.json")
        with open(path, "w") as f:
            json.dump({"property": pid, **v}, f, indent=1, sort_keys=True)
        lines.append(f"VIOLATION property={pid} replay={path}")
    for fid, h in known_hits.items():
        lines.append(f"KNOWN-FINDING: property={pid} {fid}: {listed[fid]['what']}")

    unexplored = sum(_TIMED_OUT)
    inconclusive = agg["unknown_final"] + len(nonrepro) + len(vacuous) + (1 if unexplored else 0)
    if violations:  # confirmed by replay on the real code: reported whatever else went wrong
        code = EXIT_VIOLATION
    elif errors or mismatches:
        code = EXIT_HARNESS
    elif inconclusive:
        code = EXIT_INCONCLUSIVE
    else:
        code = EXIT_OK

    n_obl = len(per_ob)
    discharged = sum(1 for name, po in per_ob.items() if po["violations"] == 0 and po["reach"])
    evidence = {
        "property_id": pid,
        "tier": tier,
        "seed": seed,
        "level": "model_checking",
        "coverage": {
            "states": max(agg["paths"], 0),
            "transitions": max(agg["decisions"], 0),
            "traces_validated_against_impl": agg["witness_ok"],
            "samples": samples or [{"note": "no completed path"}],
            "exhaustive": code in (EXIT_OK,) and not errors and not unexplored,
            "explanation": "states = feasible completed symbolic paths of the real code; transitions = "
            "solver-decided branch decisions; every path ends with a z3 query path_condition AND NOT property "
            "(unsat = holds on the whole input region of that path).",
            "obligations": n_obl,
            "discharged": discharged,
            "per_obligation": per_ob,
            "distinct_nontrivial": agg["nontrivial"],
            "evaluations": agg["paths"],
            "rule": "one case = one feasible path of the real code under symbolic inputs (distinct by its branch "
            "decisions); non-trivial = the path condition contains at least one constraint over a symbolic "
            "(non-choice) input",
            "infeasible_prefixes": agg["infeasible"],
            "queries": agg["queries"],
            "solver": f"z3 {z3.get_version_string()}",
            "solver_s": round(solver_s, 2),
            "unknown_final": agg["unknown_final"],
            "unknown_feasibility": agg["unknown_feas"],
            "inconclusive": inconclusive,
            "non_reproducing_counterexamples": len(nonrepro),
            "vacuous_obligations": vacuous,
            "witness_disagreements": len(mismatches),
            "witness_skipped": agg["witness_skipped"],
            "witness_on_degenerate_paths": agg["witness_degenerate"],
            "aux_concrete_checks_on_path_witnesses": agg["aux_checked"],
            "known_findings_hit": sorted(known_hits),
            "functions_encoded": meta.get("functions", []),
            "source_sha256": _source_hashes(meta.get("files", [])),
            "bounds": (meta.get("bounds", {}).get(tier, meta.get("bounds")) if isinstance(meta.get("bounds"), dict)
                       else meta.get("bounds")),
            "outside_bounds": meta.get("outside", []),
            "stand_ins": meta.get("stand_ins", []),
            "patched_names": sorted(patched),
            "harness_errors": errors[:5],
            "work_items_not_explored": unexplored,
            "slowest_cases": slowest,
        },
        "assumptions": meta.get("assumptions", []),
        "wall_s": round(wall, 2),
        "violations": len(lines) - len(known_hits) if violations else 0,
    }
    os.makedirs(os.path.join(OUT, "evidence"), exist_ok=True)
    with open(os.path.join(OUT, "evidence", f"{pid}.json"), "w") as f:
        json.dump(evidence, f, indent=1, sort_keys=True, default=str)

    for ln in lines:
        print(ln)
    for name, po in per_ob.items():
        print(f"  [{pid}] {name}: cases={po['cases']} paths={po['paths']} queries={po['queries']} "
              f"solver_s={po['solver_s']} violations={po['violations']}" + ("" if po["reach"] else " VACUOUS"))
    for e in errors[:3]:
        print(f"HARNESS-ERROR property={pid} obligation={e['obligation']} params={e['params']}\n{e['error']}")
    for m in mismatches[:3]:
        print(f"WITNESS-DISAGREEMENT property={pid} {json.dumps(m, default=str)[:1500]}")
    for n in nonrepro[:3]:
        print(f"INCONCLUSIVE property={pid} non-reproducing counterexample: {json.dumps(n, default=str)[:1500]}")
    if unexplored:
        print(f"INCONCLUSIVE property={pid} stopped early with {unexplored} work items unexplored "
              f"({'violations already confirmed' if violations else 'wall-clock limit'})")
    if agg["unknown_final"]:
        print(f"INCONCLUSIVE property={pid} solver returned unknown on {agg['unknown_final']} final queries")
    for vname in vacuous:
        print(f"INCONCLUSIVE property={pid} obligation {vname} is vacuous (no feasible path reached the assertion)")
    print(f"[{pid}] tier={tier} obligations={n_obl} discharged={discharged} paths={agg['paths']} "
          f"queries={agg['queries']} solver_s={round(solver_s, 1)} witness_ok={agg['witness_ok']} "
          f"wall_s={round(wall, 1)} exit={code}")
    return code


def _source_hashes(files):
    out = {}
    for f in files:
        import perception_eval
        p = os.path.join(os.path.dirname(os.path.abspath(perception_eval.__file__)), f)
        try:
            with open(p, "rb") as fh:
                out[f] = hashlib.sha256(fh.read()).hexdigest()
        except OSError:
            out[f] = "missing"
    return out


def replay(pid, obligations, path):
    with open(path) as f:
        rec = json.load(f)
    ob = next(o for o in obligations if o.name == rec["obligation"])
    params = None
    want = {k: v for k, v in rec["params"].items() if k != "_prefix"}
    for c in ob.cases:
        if _jsonable(c) == want:
            params = c
            break
    if params is None:
        print(f"replay: case {rec['params']} not found in obligation {ob.name}")
        return EXIT_HARNESS
    conc, why = run_concrete(ob, params, rec["inputs"])
    if conc is None and why and why.startswith("exception:"):
        print(f"replay: the code raised {why[10:]} on these inputs")
        print(f"VIOLATION property={pid} replay={path}")
        return EXIT_VIOLATION
    if conc is None:
        print(f"replay: {why}")
        return EXIT_INCONCLUSIVE
    failing = [k for k, v in conc["parts"].items() if not v]
    print(json.dumps({"obligation": ob.name, "params": rec["params"], "inputs": rec["inputs"], "failing": failing,
                      "obs": conc["obs"]}, indent=1, default=str))
    if failing:
        print(f"VIOLATION property={pid} replay={path}")
        return EXIT_VIOLATION
    print("replay: property holds on these inputs")
    return EXIT_OK
