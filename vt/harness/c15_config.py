"""C15 - configurations are validated; thresholds normalised to one value per label."""
import itertools
import os
import shutil
import tempfile

from perception_eval.common.label import LabelConverter
from perception_eval.common.evaluation_task import EvaluationTask
from perception_eval.common.threshold import ThresholdError, set_thresholds
from perception_eval.config import PerceptionEvaluationConfig, SensingEvaluationConfig
from perception_eval.evaluation.metrics.metrics_score_config import MetricsParameterError
from perception_eval.evaluation.result.perception_frame_config import (CriticalObjectFilterConfig,
                                                                       PerceptionPassFailConfig)

from .. import symx
from ..runner import Obligation, Out
from ..symx import L, SReal, choose, integer, real

# ------------------------------------------------------------------------------------------------
# A. set_thresholds shape laws


def _item(name, kinds):
    k = choose(name + "#kind", kinds)
    if k == "real":
        return real(name, -1000, 1000), True
    if k == "int":
        return integer(name, -1000, 1000), True
    if k == "str":
        return "0.5", False
    if k == "none":
        return None, False
    if k == "list":
        return [1.0], False
    raise ValueError(k)


def _same(a, b):
    """value identity of a normalised entry and the input it must come from"""
    if symx.is_sym(a) or symx.is_sym(b):
        return a == b
    return a is b or (type(a) == type(b) and a == b)


def _is_num(v):
    return symx.is_sym(v) or (isinstance(v, (int, float)) and not isinstance(v, bool))


def thresholds_flat(n, k, kinds):
    """nest=False: scalar (k=-1) or flat list of k items."""
    if k < 0:
        v, ok = _item("v", [x for x in kinds if x != "list"])
        spec, good = v, ok
    else:
        items = [_item(f"v{i}", kinds) for i in range(k)]
        spec = [v for v, _ in items]
        good = k > 0 and all(ok for _, ok in items) and (k == 1 or k == n)
    given = list(spec) if isinstance(spec, list) else spec
    try:
        out, exc = set_thresholds(spec, n, False), None
    except Exception as e:  # noqa - any exception is a rejection
        out, exc = None, e
    parts = {}
    if good:
        exp = [spec] * n if k < 0 else (spec * n if k == 1 else spec)
        parts["accepted"] = exc is None
        if exc is None:
            parts["one_value_per_label"] = isinstance(out, list) and len(out) == n
            parts["values_broadcast"] = len(out) == n and L.And(*[_same(a, b) for a, b in zip(out, exp)])
            again = set_thresholds(out, n, False)
            parts["idempotent"] = len(again) == len(out) and L.And(*[_same(a, b) for a, b in zip(again, out)])
    else:
        parts["malformed_rejected"] = exc is not None
    if isinstance(spec, list):
        parts["input_not_mutated"] = len(spec) == len(given) and all(a is b for a, b in zip(spec, given))
    return Out(parts=parts, obs={"exc": type(exc).__name__ if exc else None, "len": len(out) if out is not None else None})


def thresholds_nested(n, shape, kinds):
    """nest=True: shape = -1 (scalar) | ('flat', k) | ('nested', (m1, m2, ...))"""
    if shape == -1:
        v, ok = _item("v", [x for x in kinds if x != "list"])
        spec, good, form = v, ok, "scalar"
    elif shape[0] == "flat":
        k = shape[1]
        items = [_item(f"v{i}", kinds) for i in range(k)]
        spec = [v for v, _ in items]
        if k > 0 and all(isinstance(v, list) for v in spec):
            symx.assume(False)  # that is a nested specification, covered by the 'nested' shapes
        good, form = k > 0 and all(ok for _, ok in items), "flat"
    else:
        ms = shape[1]
        rows, good = [], len(ms) > 0
        for r, m in enumerate(ms):
            items = [_item(f"v{r}_{i}", kinds) for i in range(m)]
            rows.append([v for v, _ in items])
            good = good and all(ok for _, ok in items) and m in (1, n)
        spec, form = rows, "nested"
    given_rows = [list(r) if isinstance(r, list) else r for r in spec] if isinstance(spec, list) else spec
    try:
        out, exc = set_thresholds(spec, n, True), None
    except Exception as e:  # noqa
        out, exc = None, e
    parts = {}
    if isinstance(spec, list):  # the caller's specification object is left as it was given (rows included)
        parts["input_not_mutated"] = len(spec) == len(given_rows) and all(
            (len(a) == len(b) and all(x is y for x, y in zip(a, b))) if isinstance(a, list) else a is b
            for a, b in zip(spec, given_rows))

    def rows_equal(a, b):
        return len(a) == len(b) and all(isinstance(x, list) and len(x) == len(y) for x, y in zip(a, b)) and L.And(
            *[_same(p, q) for x, y in zip(a, b) for p, q in zip(x, y)])

    if good:
        parts["accepted"] = exc is None
        if exc is None:
            parts["nested_one_value_per_label"] = (isinstance(out, list) and len(out) > 0
                                                   and all(isinstance(r, list) and len(r) == n for r in out))
            if form == "scalar":
                parts["values_broadcast"] = rows_equal(out, [[spec] * n])
            elif form == "flat":
                # a flat list is either one threshold per label (k == n) or k thresholds broadcast over labels
                parts["values_broadcast"] = L.Or(rows_equal(out, [[t] * n for t in spec]),
                                                 len(spec) == n and rows_equal(out, [spec]))
            else:
                parts["values_broadcast"] = rows_equal(out, [r * n if len(r) == 1 else r for r in spec])
            again = set_thresholds(out, n, True)
            parts["idempotent"] = rows_equal(again, out) if not (form == "flat" and len(out) == n == 1) else True
            if form == "nested" and all(len(r) == 1 for r in given_rows):
                # the same (all-singleton) specification object normalised again for another label count still broadcasts
                try:
                    other = set_thresholds(spec, n + 1, True)
                    parts["reusable_for_another_label_count"] = all(len(r) == n + 1 for r in other)
                except Exception:  # noqa
                    parts["reusable_for_another_label_count"] = False
    else:
        parts["malformed_rejected"] = exc is not None
    return Out(parts=parts, obs={"exc": type(exc).__name__ if exc else None,
                                 "shape": [len(r) for r in out] if out is not None else None})


# ------------------------------------------------------------------------------------------------
# B. configuration accept / reject matrix

TASKS3D = ["detection", "tracking", "fp_validation"]
TASKS2D = ["detection2d", "tracking2d", "classification2d", "fp_validation2d"]
RANGE_XY = ("max_x_position", "max_y_position")
RANGE_D = ("max_distance", "min_distance")
METRIC_KEYS = ("center_distance_thresholds", "plane_distance_thresholds", "iou_2d_thresholds", "iou_3d_thresholds")


def _base(task, labels):
    cfg = {
        "evaluation_task": task,
        "target_labels": list(labels),
        "label_prefix": "autoware",
        "merge_similar_labels": False,
        "allow_matching_unknown": True,
        "min_point_numbers": [0] * len(labels),
        "center_distance_thresholds": [[1.0] * len(labels)],
        "iou_2d_thresholds": [0.5],
    }
    if task in TASKS3D + ["prediction", "sensing"]:
        cfg["max_x_position"] = real("max_x", 1, 200)
        cfg["max_y_position"] = real("max_y", 1, 200)
        cfg["plane_distance_thresholds"] = [2.0, 3.0]
        cfg["iou_3d_thresholds"] = [0.5]
    return cfg


EDITS = ["none", "both_range_kinds", "other_range_kind", "no_range", "half_range", "del_min_point_numbers",
         "del_label_prefix", "unknown_metric_key", "bad_task", "sensing_task", "short_min_points", "long_conf",
         "str_in_thresholds", "bad_nested_len", "two_frame_ids", "empty_metric_list", "scalar_everything",
         "nested_str"]


def _apply(cfg, edit, n):
    cfg = dict(cfg)
    frame_id = "base_link"
    if edit == "both_range_kinds":
        cfg["max_x_position"], cfg["max_y_position"] = real("mx2", 1, 200), real("my2", 1, 200)
        cfg["max_distance"], cfg["min_distance"] = real("dmax", 50, 200), real("dmin", 0, 10)
    elif edit == "other_range_kind":
        cfg.pop("max_x_position", None), cfg.pop("max_y_position", None)
        cfg["max_distance"], cfg["min_distance"] = real("dmax", 50, 200), real("dmin", 0, 10)
    elif edit == "no_range":
        cfg.pop("max_x_position", None), cfg.pop("max_y_position", None)
    elif edit == "half_range":
        cfg.pop("max_y_position", None)
        cfg["max_x_position"] = real("mx2", 1, 200)
    elif edit == "del_min_point_numbers":
        cfg.pop("min_point_numbers")
    elif edit == "del_label_prefix":
        cfg.pop("label_prefix")
    elif edit == "unknown_metric_key":
        cfg["foo_thresholds"] = [0.8]
    elif edit == "bad_task":
        cfg["evaluation_task"] = "foo"
    elif edit == "sensing_task":
        cfg["evaluation_task"] = "sensing"
    elif edit == "short_min_points":
        cfg["min_point_numbers"] = [0] * (n + 1)
    elif edit == "long_conf":
        cfg["confidence_threshold"] = [0.5] * (n + 2)
    elif edit == "str_in_thresholds":
        cfg["center_distance_thresholds"] = [1.0, "2.0"]
    elif edit == "bad_nested_len":
        cfg["center_distance_thresholds"] = [[1.0] * (n + 1)]
    elif edit == "two_frame_ids":
        frame_id = ["cam_front", "cam_back"]
    elif edit == "empty_metric_list":
        cfg["iou_2d_thresholds"] = []
    elif edit == "scalar_everything":
        cfg["min_point_numbers"] = 0
        cfg["confidence_threshold"] = real("conf", 0, 1)
        cfg["max_matchable_radii"] = real("radius", 1, 10)
        cfg["center_distance_thresholds"] = real("cd", 0, 5)
    elif edit == "nested_str":
        cfg["center_distance_thresholds"] = [["a"] * n]
    return cfg, frame_id


def _has(cfg, keys):
    return all(cfg.get(k) is not None for k in keys)


def config_matrix(task, edit, labels):
    n = len(labels)
    cfg, frame_id = _apply(_base(task, labels), edit, n)
    if task in TASKS2D and frame_id == "base_link":
        frame_id = "cam_front"
    tmp = tempfile.mkdtemp(prefix="verif_c15_")
    try:
        try:
            conf, exc = PerceptionEvaluationConfig([], frame_id, tmp, cfg), None
        except Exception as e:  # noqa
            conf, exc = None, e
    finally:
        shutil.rmtree(tmp, ignore_errors=True)
    task_name = cfg["evaluation_task"]
    is3d = task_name in TASKS3D + ["prediction", "sensing"]
    parts = {}
    known = {}
    if conf is not None:
        # accepted ONLY IF ...
        parts["task_supported"] = task_name in TASKS3D + TASKS2D
        xy, dd = _has(cfg, RANGE_XY), _has(cfg, RANGE_D)
        parts["exactly_one_range_kind_for_3d"] = (not is3d) or (xy != dd)
        parts["mandatory_present"] = "label_prefix" in cfg and (task_name != "detection"
                                                                or cfg.get("min_point_numbers") is not None)
        parts["no_unknown_metric_parameter"] = not any(k.endswith("_thresholds") and k not in METRIC_KEYS for k in cfg)
        parts["single_frame_id_for_3d"] = (not is3d) or isinstance(frame_id, str)
        known["C15-unknown-metric-parameter-accepted"] = any(
            k.endswith("_thresholds") and k not in METRIC_KEYS for k in cfg)
        # ... and every accepted configuration exposes per-label lists of the right length
        tl = conf.filtering_params["target_labels"]
        lens = [len(tl) == n]
        for k in ("max_x_position_list", "max_y_position_list", "max_distance_list", "min_distance_list",
                  "max_matchable_radii", "min_point_numbers", "confidence_threshold_list"):
            v = conf.filtering_params.get(k)
            if v is not None:
                lens.append(isinstance(v, list) and len(v) == n and all(_is_num(x) for x in v))
        parts["filter_lists_one_per_label"] = all(lens)
        mc = conf.metrics_config.detection_config or conf.metrics_config.tracking_config \
            or conf.metrics_config.classification_config
        mlens = []
        if mc is not None:
            for k in METRIC_KEYS:
                rows = getattr(mc, k, [])
                mlens.append(isinstance(rows, list) and all(isinstance(r, list) and len(r) == n
                                                            and all(_is_num(x) for x in r) for r in rows))
        parts["metric_lists_one_per_label"] = all(mlens)
    else:
        # the well-formed base configuration (and pure re-spellings of it) must be accepted
        if task != "prediction" and (
                edit in ("none", "other_range_kind", "scalar_everything") or (edit == "no_range" and task in TASKS2D)
                or (edit == "del_min_point_numbers" and task != "detection")
                or (edit == "two_frame_ids" and task in TASKS2D)):
            parts["valid_configuration_accepted"] = False
        else:
            parts["rejected"] = True
    return Out(parts=parts, known=known,
               obs={"accepted": conf is not None, "exc": type(exc).__name__ if exc else None})


def sensing_matrix(task):
    cfg = {"evaluation_task": task, "target_uuids": None, "box_scale_0m": real("s0", 0.5, 2),
           "box_scale_100m": real("s100", 0.5, 2), "min_points_threshold": 1}
    tmp = tempfile.mkdtemp(prefix="verif_c15_")
    try:
        try:
            conf, exc = SensingEvaluationConfig([], "base_link", tmp, cfg), None
        except Exception as e:  # noqa
            conf, exc = None, e
    finally:
        shutil.rmtree(tmp, ignore_errors=True)
    parts = {"accepted_iff_sensing": (conf is not None) == (task == "sensing")}
    return Out(parts=parts, obs={"accepted": conf is not None})


class _Cfg:
    def __init__(self, task):
        self.evaluation_task = EvaluationTask.from_value(task)
        self.label_converter = LabelConverter(task, False, "autoware")


def frame_configs(task, n, lx, ld, lp, lc, lm):
    """CriticalObjectFilterConfig / PerceptionPassFailConfig: list lengths (l* = length or None)."""
    labels = ["car", "pedestrian", "bicycle"][:n]

    def lst(name, ln):
        return None if ln is None else [real(f"{name}{i}", 0, 100) for i in range(ln)]

    kw = dict(max_x_position_list=lst("x", lx), max_y_position_list=lst("y", lx), max_distance_list=lst("dmax", ld),
              min_distance_list=lst("dmin", ld), min_point_numbers=lst("p", lp), confidence_threshold_list=lst("c", lc))
    try:
        crit, exc = CriticalObjectFilterConfig(_Cfg(task), labels, **kw), None
    except Exception as e:  # noqa
        crit, exc = None, e
    parts = {}
    is3d = task in TASKS3D
    if crit is not None:
        fp = crit.filtering_params
        ok = [len(fp["target_labels"]) == n]
        for k in ("max_x_position_list", "max_y_position_list", "max_distance_list", "min_distance_list",
                  "min_point_numbers", "confidence_threshold_list"):
            if fp[k] is not None:
                ok.append(len(fp[k]) == n)
        parts["critical_lists_one_per_label"] = all(ok)
        parts["critical_range_given_for_3d"] = (not is3d) or fp["max_x_position_list"] is not None \
            or fp["max_distance_list"] is not None
    else:
        well_formed = all(v is None or v == n for v in (lx, ld, lp, lc)) and ((lx == n) or (ld == n) or not is3d)
        parts["well_formed_critical_accepted"] = not well_formed
    try:
        pf, exc2 = PerceptionPassFailConfig(_Cfg(task), labels, lst("m", lm), lst("pc", lc)), None
    except Exception as e:  # noqa
        pf, exc2 = None, e
    if pf is not None:
        parts["pass_fail_lists_one_per_label"] = (pf.matching_threshold_list is None
                                                  or len(pf.matching_threshold_list) == n) and (
            pf.confidence_threshold_list is None or len(pf.confidence_threshold_list) == n)
    else:
        parts["well_formed_pass_fail_accepted"] = not all(v is None or v == n for v in (lm, lc))
    return Out(parts=parts, obs={"crit": crit is not None, "pf": pf is not None})


def obligations(pid, tier):
    quick = tier == "quick"
    K = 3 if quick else 4
    N = 3 if quick else 4
    kinds_all = ["real", "int", "str", "none", "list"]
    flat_cases = [dict(n=n, k=k, kinds=kinds_all) for n in range(1, N + 1) for k in range(-1, K + 1)]
    nested_cases = [dict(n=n, shape=-1, kinds=kinds_all) for n in range(1, N + 1)]
    nested_cases += [dict(n=n, shape=("flat", k), kinds=kinds_all) for n in range(1, N + 1) for k in range(0, K + 1)]
    M = 3 if quick else 4
    kinds_n = ["real", "str", "none"] if quick else ["real", "int", "str", "none"]
    for n in range(1, N + 1):
        for rows in range(0, (2 if quick else 3) + 1):
            for ms in itertools.product(range(0, M + 1), repeat=rows):
                if sum(ms) > (4 if quick else 6):
                    continue
                nested_cases.append(dict(n=n, shape=("nested", ms), kinds=kinds_n))
    labelsets = [("car",), ("car", "pedestrian", "bicycle")] if quick else [("car",), ("car", "pedestrian"),
                                                                           ("car", "pedestrian", "bicycle", "bus")]
    cfg_cases = [dict(task=t, edit=e, labels=ls) for t in TASKS3D + TASKS2D + ["prediction"] for e in EDITS
                 for ls in labelsets]
    fc = []
    opts = lambda n: [None, n, n + 1]  # noqa
    for task in ("detection", "detection2d"):
        for n in ((2,) if quick else (1, 2, 3)):
            for lx in opts(n):
                for ld in opts(n):
                    for lp in (None, n, n - 1):
                        for lc in (None, n):
                            for lm in (None, n, n + 1):
                                fc.append(dict(task=task, n=n, lx=lx, ld=ld, lp=lp, lc=lc, lm=lm))
    return [
        Obligation("thresholds_flat", thresholds_flat, cases=flat_cases, use_shims=False,
                   desc="set_thresholds(nest=False): broadcast, exact length, idempotent, malformed rejected"),
        Obligation("thresholds_nested", thresholds_nested, cases=nested_cases, use_shims=False,
                   desc="set_thresholds(nest=True): all nestings up to the bound"),
        Obligation("config_matrix", config_matrix, cases=cfg_cases, use_shims=False,
                   desc="PerceptionEvaluationConfig accepted only if supported task, one range kind (3-D), mandatory "
                        "keys, no unknown metric parameter; accepted configs expose one value per label"),
        Obligation("sensing_matrix", sensing_matrix, use_shims=False,
                   cases=[dict(task=t) for t in ["sensing", "detection", "tracking", "detection2d", "foo"]],
                   desc="SensingEvaluationConfig accepts exactly the sensing task"),
        Obligation("frame_configs", frame_configs, cases=fc, use_shims=False,
                   desc="CriticalObjectFilterConfig / PerceptionPassFailConfig list-length checks"),
    ]


def meta(pid):
    return {
        "functions": ["common.threshold.set_thresholds/__get_thresholds/__get_nested_thresholds/check_thresholds/"
                      "check_nested_thresholds", "config.perception_evaluation_config.PerceptionEvaluationConfig",
                      "config._evaluation_config_base._EvaluationConfigBase.__init__/_check_tasks",
                      "config.sensing_evaluation_config.SensingEvaluationConfig",
                      "evaluation.metrics.metrics_score_config.MetricsScoreConfig", "evaluation.metrics.config.*",
                      "evaluation.result.perception_frame_config.CriticalObjectFilterConfig/PerceptionPassFailConfig"],
        "files": ["common/threshold.py", "config/_evaluation_config_base.py", "config/perception_evaluation_config.py",
                  "config/sensing_evaluation_config.py", "evaluation/metrics/metrics_score_config.py",
                  "evaluation/metrics/config/_metrics_config_base.py", "evaluation/result/perception_frame_config.py"],
        "bounds": {"quick": "threshold specs: scalar | flat list of 0..3 items | nested list of 0..2 rows of 0..3 items "
                            "(<= 4 items in total), each item a symbolic real, symbolic int, str, None or list; 1..3 "
                            "labels; configuration dictionaries: valid base per task (8 tasks) x 18 single edits x 2 label "
                            "sets, numeric values symbolic",
                   "thorough": "lists up to 4, 3 rows, 4 labels, 3 label sets"},
        "outside": ["tuples / numpy arrays as threshold containers", "multiple simultaneous edits of a configuration"],
        "stand_ins": ["none (pure Python); SReal/SInt are registered as numbers.Real"],
        "assumptions": ["any exception counts as rejection of a malformed specification",
                        "the solver's share is the value equalities (broadcast, idempotence) over symbolic numbers; shapes "
                        "and edits are enumerated exhaustively within the bound by solver-checked forks"],
    }
