"""C08 - loosening a matching threshold never loses a TP and never lowers AP."""
import perception_eval.evaluation.metrics.detection.ap as AP
import perception_eval.evaluation.metrics.detection.map as MAP
import perception_eval.evaluation.result.object_result as OR
from perception_eval.evaluation.matching import MatchingMode
from perception_eval.evaluation.matching.objects_filter import (divide_objects, divide_objects_to_num, get_negative_objects,
                                                                get_positive_objects)
from perception_eval.evaluation.metrics.detection.tp_metrics import TPMetricsAp, TPMetricsAph

from .. import build, symx
from ..runner import Obligation, Out
from ..symx import L, assume, choose, real
from . import scene as S
from .scene import CAR, PED, UNK

MODES = {"center": MatchingMode.CENTERDISTANCE, "plane": MatchingMode.PLANEDISTANCE, "iou2d": MatchingMode.IOU2D,
         "iou3d": MatchingMode.IOU3D}
TARGETS = [CAR, PED]


def _thresholds(mode, n):
    """tight and loose per-label thresholds: larger distance / smaller IoU is looser"""
    if mode in ("center", "plane"):
        tight = [real(f"tight_{i}", 0, 20) for i in range(n)]
        loose = [t + real(f"loosen_{i}", 0, 20) for i, t in enumerate(tight)]
    else:
        loose = [real(f"loose_{i}", 0, 1) for i in range(n)]
        tight = [L.If(t + d > 1, 1, t + d) for t, d in ((t, real(f"tighten_{i}", 0, 1)) for i, t in enumerate(loose))]
    return tight, loose


def _results(n, e_labels, g_labels, policy, sym_conf=False, long_estimates=False):
    pose = S.Pose("base_link", "id")
    results, rows = [], []
    for i in range(n):
        el = choose(f"r{i}_est_label", e_labels)
        gl = choose(f"r{i}_gt_label", g_labels)
        off = real(f"r{i}_offset", -6, 6)
        conf = real(f"r{i}_conf", 0, 1) if sym_conf else [0.62, 0.91, 0.15, 0.77, 0.43][i]
        est = S.SObj(f"e{i}", pose, el, off, 12.0 * i, conf=conf)
        if long_estimates:  # estimates 2 m longer than the ground truth: plane distance != centre distance, IoU3D != IoU2D
            from perception_eval.common.shape import Shape, ShapeType
            est.obj.state.shape = Shape(ShapeType.BOUNDING_BOX, (S.SIZE[0], S.SIZE[1] + 2.0, S.SIZE[2] + 1.0))
        gt = S.SObj(f"g{i}", pose, gl, 0.0, 12.0 * i, is_gt=True) if gl is not None else None
        results.append(OR.DynamicObjectWithPerceptionResult(est.obj, gt.obj if gt else None, S.POLICIES[policy]))
        rows.append((est, gt))
    return results, rows


PAST = {"center": "plane", "plane": "center", "iou2d": "iou3d", "iou3d": "iou2d"}


def tp_monotone(mode, n, policy, with_past=False):
    tight, loose = _thresholds(mode, len(TARGETS))
    results, rows = _results(n, [CAR, PED, UNK], [None, CAR, PED], policy, long_estimates=with_past)
    if with_past:
        # the result objects have a past: they were already judged under another matching mode at the same thresholds
        get_positive_objects(results, TARGETS, MODES[PAST[mode]], list(tight))
        get_negative_objects([g.obj for _, g in rows if g is not None], results, TARGETS, MODES[PAST[mode]], list(tight))
    gts = [g.obj for _, g in rows if g is not None]
    extra = S.SObj("gx", S.Pose("base_link", "id", tag="ego2"), CAR, 40.0, -20.0, is_gt=True).obj
    gts.append(extra)
    out = {}
    for name, thr in (("tight", tight), ("loose", loose)):
        tp, fp = get_positive_objects(results, TARGETS, MODES[mode], list(thr))
        tn, fn = get_negative_objects(gts, results, TARGETS, MODES[mode], list(thr))
        out[name] = (tp, fp, tn, fn)
    tp_t, fp_t, _, fn_t = out["tight"]
    tp_l, fp_l, _, fn_l = out["loose"]
    parts = {
        "tp_kept_when_loosened": all(any(r is q for q in tp_l) for r in tp_t),
        "tp_count_non_decreasing": len(tp_t) <= len(tp_l),
        "fn_count_non_increasing": len(fn_t) >= len(fn_l),
        "fp_count_non_increasing": len(fp_t) >= len(fp_l),
        "conservation_both": len(tp_t) + len(fp_t) == n and len(tp_l) + len(fp_l) == n,
    }
    return Out(parts=parts, obs={"tight": [len(x) for x in out["tight"]], "loose": [len(x) for x in out["loose"]]})


def ap_monotone(mode, n, ngt_extra, aph, nested=0):
    tight, loose = _thresholds(mode, 1)
    results, rows = _results(n, [CAR, UNK], [None, CAR], "default")
    ngt = sum(1 for _, g in rows if g is not None) + ngt_extra
    weights = [real(f"r{i}_heading_weight", 0, 1) for i in range(n)] if aph else None
    index = {id(r): i for i, r in enumerate(results)}

    class AbstractAph(TPMetricsAph):  # recorded cut: the weight is C09's subject; it does not depend on the threshold
        def get_value(self, object_result):
            return weights[index[id(object_result)]]

    metric = AbstractAph() if aph else TPMetricsAp()
    if nested:  # scene-level input (per-frame lists), the *same* lists evaluated under both thresholds, as in a sweep
        feed = [[], list(results[:nested]), list(results[nested:])]
        ap_t = AP.Ap(metric, feed, ngt, [CAR], MODES[mode], [tight[0]])
        ap_l = AP.Ap(metric, feed, ngt, [CAR], MODES[mode], [loose[0]])
    else:
        ap_t = AP.Ap(metric, list(results), ngt, [CAR], MODES[mode], [tight[0]])
        ap_l = AP.Ap(metric, list(results), ngt, [CAR], MODES[mode], [loose[0]])
    parts = {"ap_non_decreasing_when_loosened": ap_t.ap <= ap_l.ap + 1e-9,
             "cumulative_tp_non_decreasing": L.And(*[a <= b + 1e-9 for a, b in zip(ap_t.tp_list, ap_l.tp_list)])}
    return Out(parts=parts, obs={"tight": ap_t.ap, "loose": ap_l.ap})


def map_monotone(mode, n):
    tight, loose = _thresholds(mode, 2)
    results, rows = _results(n, [CAR, PED], [None, CAR, PED], "default")
    gts = [g.obj for _, g in rows if g is not None]
    buckets = divide_objects(results, TARGETS)
    nums = divide_objects_to_num(gts, TARGETS)
    nums = {k: v + 1 for k, v in nums.items()}
    m_t = MAP.Map(buckets, nums, TARGETS, MODES[mode], list(tight))
    m_l = MAP.Map(buckets, nums, TARGETS, MODES[mode], list(loose))
    parts = {}
    inf = float("inf")
    if not (not symx.is_sym(m_t.map) and m_t.map == inf) and not (not symx.is_sym(m_l.map) and m_l.map == inf):
        parts["map_non_decreasing"] = m_t.map <= m_l.map + 1e-9
        parts["maph_non_decreasing"] = m_t.maph <= m_l.maph + 1e-9
    else:
        parts["both_undefined"] = (m_t.map == inf) == (m_l.map == inf)
    return Out(parts=parts, obs={"tight": m_t.map, "loose": m_l.map})


def obligations(pid, tier):
    quick = tier == "quick"
    tp = [dict(mode=m, n=n, policy=p) for m in (("center", "plane", "iou2d") if quick else MODES) for n in ((1, 2) if quick else (1, 2, 3))
          for p in (("default", "allow_any") if n == 1 else ("default",))
          if not (n == 3 and m in ("plane", "iou3d"))]  # three results only for centre distance and BEV IoU (run time)
    tp += [dict(mode=m, n=1, policy="default", with_past=True) for m in (("center", "plane", "iou2d") if quick else MODES)]
    ap = [dict(mode=m, n=n, ngt_extra=e, aph=a) for m in (("center", "iou2d") if quick else ("center", "iou2d", "plane"))
          for n in ((1, 2, 3) if m == "center" else (1, 2)) for e in (0, 1) for a in (False, True)
          if not (quick and n == 3 and a)]
    ap += [dict(mode="center", n=n, ngt_extra=1, aph=a, nested=1) for n in (2, 3) for a in (False, True) if not (quick and n == 3 and a)]
    if not quick:
        ap += [dict(mode="center", n=4, ngt_extra=1, aph=False)]
    mp = [dict(mode=m, n=n) for m in (("center",) if quick else ("center", "iou2d")) for n in ((1, 2) if quick else (1, 2, 3))]
    return [
        Obligation("tp_monotone", tp_monotone, cases=tp, extras=S.frame_extras,
                   desc="get_positive_objects / get_negative_objects under a threshold and a looser one"),
        Obligation("ap_monotone", ap_monotone, cases=ap, extras=S.frame_extras,
                   desc="Ap / APH under a threshold and a looser one on the same results"),
        Obligation("map_monotone", map_monotone, cases=mp, extras=S.frame_extras, desc="mAP / mAPH over two labels"),
    ]


def meta(pid):
    return {
        "functions": ["evaluation.matching.objects_filter.get_positive_objects/get_negative_objects",
                      "evaluation.result.object_result.DynamicObjectWithPerceptionResult.get_status/is_result_correct",
                      "evaluation.matching.object_matching.{CenterDistance,PlaneDistance,IOU2d,IOU3d}Matching.is_better_than "
                      "and scores", "evaluation.metrics.detection.ap.Ap", "evaluation.metrics.detection.map.Map"],
        "files": ["evaluation/matching/objects_filter.py", "evaluation/result/object_result.py",
                  "evaluation/matching/object_matching.py", "evaluation/metrics/detection/ap.py",
                  "evaluation/metrics/detection/map.py"],
        "bounds": {"quick": "N <= 2 results (AP: <= 3) with symbolic estimate offset along the lane (equal-size axis-aligned "
                            "boxes: real centre-distance, plane-distance and BEV-IoU code), labels {car,pedestrian,unknown} / "
                            "ground truth {none,car,pedestrian}; every ordered pair tight <= loose of symbolic per-label "
                            "thresholds (IoU: loose <= tight in [0,1])",
                   "thorough": "all four modes with N <= 2, N = 3 for centre distance and BEV IoU (AP <= 4)"},
        "outside": ["false-positive-labelled ground truth (excluded by the statement)", "rotated boxes (C06)",
                    "longer result lists"],
        "stand_ins": ["numpy proxy, Rot, ConvexPolygon, lazy matching wrappers", "APH: abstract heading weights in [0,1] "
                      "independent of the threshold (recorded cut)"],
        "assumptions": ["fixed distinct confidences", "floats modelled as exact reals"],
    }
