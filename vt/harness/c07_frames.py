"""C07 - evaluation results do not depend on the coordinate frame of the objects (relational)."""
from .. import symx
from ..runner import Obligation, Out
from ..symx import L, assume, choose, real
from . import scene as S
from .scene import CAR, FP, PED, UNK

TARGETS = [CAR, PED]
EST_YAW = (8, 0, 0, 1)   # estimates are rotated ~14 deg against the ground truth: non-trivial heading weights


def _scene_spec(n, m, e_labels, g_labels, tag=""):
    """ego-relative description shared by both renderings"""
    lane = (lambda k: 3.0 * k) if n + m <= 2 else (lambda k: 0.0)
    es = [dict(name=f"e{i}", label=choose(f"{tag}e{i}_label", e_labels), ex=real(f"{tag}e{i}_ego_x", -120, 120), ey=lane(i),
               conf=[0.9, 0.7, 0.8][i]) for i in range(n)]
    gs = [dict(name=f"g{j}", label=choose(f"{tag}g{j}_label", g_labels), ex=real(f"{tag}g{j}_ego_x", -120, 120),
               ey=lane(j) + (0.4 if n + m <= 2 else 0.0)) for j in range(m)]
    # the statement's proviso (no decision within tolerance of its boundary): the choice of the ground truth's
    # nearest-to-ego side must not be a tie, otherwise rounding noise picks different sides in the two renderings
    w, l = S.SIZE[0], S.SIZE[1]
    for d in gs:
        c = [(d["ex"] + sx * l / 2, d["ey"] + sy * w / 2) for sx, sy in ((1, 1), (-1, 1), (-1, -1), (1, -1))]
        dd = [p[0] * p[0] + p[1] * p[1] for p in c]
        for i in range(4):
            for j in range(i + 1, 4):
                if d["ey"] == 0.0 and (i, j) in ((0, 3), (1, 2)):
                    continue  # mirror corners of a box centred on the x axis: same side either way
                diff = dd[i] - dd[j]
                assume(L.Or(diff > 0.01, diff < -0.01))
    return es, gs


def _render(pose, es, gs, unix_time=0):
    ests = [S.SObj(d["name"], pose, d["label"], d["ex"], d["ey"], conf=d["conf"], yaw_q=EST_YAW, unix_time=unix_time)
            for d in es]
    gts = [S.SObj(d["name"], pose, d["label"], d["ex"], d["ey"], is_gt=True, unix_time=unix_time) for d in gs]
    return ests, gts


def _summary(fr, ests, gts):
    en = {id(e.obj): e.name for e in ests}
    gn = {id(g.obj): g.name for g in gts}
    p = fr.pass_fail_result

    def pair(r):
        return (en[id(r.estimated_object)], gn.get(id(r.ground_truth_object)) if r.ground_truth_object is not None else None)

    return {
        "results": sorted(map(pair, fr.object_results), key=str),
        "tp": sorted(map(pair, p.tp_object_results), key=str),
        "fp": sorted(map(pair, p.fp_object_results), key=str),
        "fn": sorted(gn[id(x)] for x in p.fn_objects),
        "tn": sorted(gn[id(x)] for x in p.tn_objects),
        "critical_gt": sorted(gn[id(x)] for x in fr.frame_ground_truth.objects),
    }


def _scores(fr):
    out = []
    for mp in fr.metrics_score.maps:
        out += [mp.map, mp.maph] + [a.ap for a in mp.aps] + [a.ap for a in mp.aphs]
    for ts in fr.metrics_score.tracking_scores:
        for c in ts.clears:
            out += [c.tp, c.fp, c.id_switch, c.mota, c.motp, c.tp_matching_score]
    return out


def _close_all(a, b):
    inf = float("inf")
    conds = [len(a) == len(b)]
    for x, y in zip(a, b):
        xi = (not symx.is_sym(x)) and x == inf
        yi = (not symx.is_sym(y)) and y == inf
        conds.append(xi == yi if (xi or yi) else L.close(x, y, 1e-7))
    return L.And(*conds)


def _crit(kind):
    n = len(TARGETS)
    if kind == "xy":
        return ("xy", [real(f"crit_max_x_{i}", 0, 150) for i in range(n)], [real(f"crit_max_y_{i}", 5, 150) for i in range(n)])
    # ring bounds from a concrete set: with symbolic bounds both renderings compare x^2 + c with t^2 (non-linear in
    # two unknowns), which z3 does not always decide within the feasibility timeout
    k = choose("crit_ring", [0, 1, 2])
    return ("dist", [[60.0, 25.0], [8.0, 90.0], [3.0, 3.5]][k], [[2.5, 0.0], [0.5, 7.0], [1.0, 1.25]][k])


def detection_both_frames(ego_q, n, m, policy, crit_kind, e_labels, g_labels):
    es, gs = _scene_spec(n, m, e_labels, g_labels)
    crit = _crit(crit_kind)
    thr = [2.0, 1.0] if (n + m >= 3 or crit_kind == "dist") else [real(f"pass_fail_thr_{i}", 0, 10, lo_strict=True)
                                                                 for i in range(2)]
    metrics = {"center_distance_thresholds": [[1.0, 1.0]], "plane_distance_thresholds": [[2.0, 2.0]]}
    ego = S.Pose("base_link", ego_q, tag="ego")
    mp = S.Pose("map", ego_q, tag="ego_map")
    e1, g1 = _render(ego, es, gs)
    e2, g2 = _render(mp, es, gs)
    f1, _ = S.run_frame(ego, e1, g1, TARGETS, policy, crit, thr, metrics=metrics)
    f2, _ = S.run_frame(mp, e2, g2, TARGETS, policy, crit, thr, metrics=metrics)
    s1, s2 = _summary(f1, e1, g1), _summary(f2, e2, g2)
    parts = {f"same_{k}": s1[k] == s2[k] for k in s1}
    parts["same_scores"] = _close_all(_scores(f1), _scores(f2))
    return Out(parts=parts, obs={"ego": s1, "map": s2})


def tracking_both_frames(ego_q, ego_q2, n, policy):
    """two consecutive frames (the ego moves between them); CLEAR outputs agree between the renderings."""
    crit = ("xy", [120.0, 120.0], [50.0, 50.0])
    thr = [2.0, 2.0]
    metrics = {"center_distance_thresholds": [[1.0, 1.0]], "plane_distance_thresholds": [[2.0, 2.0]],
               "iou_2d_thresholds": None, "iou_3d_thresholds": None}
    out = {}
    specs = [_scene_spec(n, n, [CAR], [CAR], tag=f"f{k}_") for k in range(2)]
    for frame in ("base_link", "map"):
        prev = None
        for k, (es, gs) in enumerate(specs):
            pose = S.Pose(frame, ego_q if k == 0 else ego_q2, tag=f"ego_{frame}_{k}")
            ests, gts = _render(pose, es, gs, unix_time=k * 100000)
            fr, _ = S.run_frame(pose, ests, gts, TARGETS, policy, crit, thr, task="tracking", metrics=metrics,
                                frame_name=str(k), unix_time=k * 100000, previous=prev)
            prev = fr
        out[frame] = (_summary(fr, ests, gts), _scores(fr))
    parts = {f"same_{k}": out["base_link"][0][k] == out["map"][0][k] for k in out["base_link"][0]}
    parts["same_tracking_scores"] = _close_all(out["base_link"][1], out["map"][1])
    return Out(parts=parts, obs={"ego": out["base_link"][0], "map": out["map"][0]})


def pose_update_both_frames(ego_q, ego_q2, crit_kind):
    """A key frame is evaluated in the map frame; the next frame is derived from it (deep copy with the new ego pose
    written into the same transform registry, as ground-truth interpolation does) and evaluated.  Its results must equal
    those of the ego-frame rendering of that second scene."""
    crit = _crit(crit_kind)
    thr = [2.0, 1.0]
    metrics = {"center_distance_thresholds": [[1.0, 1.0]], "plane_distance_thresholds": [[2.0, 2.0]]}
    es1, gs1 = _scene_spec(1, 1, [CAR], [CAR], tag="k_")
    es2, gs2 = _scene_spec(1, 1, [CAR], [CAR, FP], tag="n_")
    key_pose = S.Pose("map", ego_q, tag="ego_key")
    e1, g1 = _render(key_pose, es1, gs1)
    f_key, _ = S.run_frame(key_pose, e1, g1, TARGETS, "default", crit, thr, metrics=metrics)
    new_pose = S.Pose("map", ego_q2, tag="ego_new", reuse_buffer=True)
    e2, g2 = _render(new_pose, es2, gs2, unix_time=50000)
    f_map, _ = S.run_frame(new_pose, e2, g2, TARGETS, "default", crit, thr, metrics=metrics, frame_name="1",
                           unix_time=50000, derive_from=f_key.frame_ground_truth)
    ego = S.Pose("base_link", ego_q2, tag="ego_b")
    e3, g3 = _render(ego, es2, gs2, unix_time=50000)
    f_ego, _ = S.run_frame(ego, e3, g3, TARGETS, "default", crit, thr, metrics=metrics, frame_name="1", unix_time=50000)
    s_map, s_ego = _summary(f_map, e2, g2), _summary(f_ego, e3, g3)
    parts = {f"same_{k}": s_map[k] == s_ego[k] for k in s_map}
    parts["same_scores"] = _close_all(_scores(f_map), _scores(f_ego))
    return Out(parts=parts, obs={"ego": s_ego, "map": s_map})


def obligations(pid, tier):
    quick = tier == "quick"
    det = []
    for q in (("yaw_3_4_5", "yaw_neg") if quick else ("yaw_3_4_5", "yaw_neg", "yaw90", "yaw180")):
        for (n, m) in ([(1, 1), (2, 1), (1, 2)] if quick else [(1, 1), (2, 1), (1, 2), (2, 2)]):
            if (n, m) == (2, 2) and q not in ("yaw90", "yaw180"):
                continue  # 2x2 scenes under a non-axis-aligned ego yaw leave single paths running for tens of minutes
            for ck in (("xy", "dist") if n + m <= 2 else ("xy",)):
                small = n + m >= 3
                det.append(dict(ego_q=q, n=n, m=m, policy="default" if small else "allow_unknown", crit_kind=ck,
                                e_labels=[CAR, UNK] if not small else [CAR], g_labels=[CAR, PED, FP] if not small else [CAR, FP]))
    trk = [dict(ego_q="yaw_3_4_5", ego_q2="yaw_neg", n=1, policy="default")]
    if not quick:  # (two objects per frame in both renderings do not finish within an hour: outside the thorough bound)
        trk += [dict(ego_q="yaw90", ego_q2="yaw_3_4_5", n=1, policy="default"),
                dict(ego_q="yaw_neg", ego_q2="yaw180", n=1, policy="allow_unknown")]
    upd = [dict(ego_q="yaw_3_4_5", ego_q2="yaw_neg", crit_kind="xy")]
    if not quick:
        upd += [dict(ego_q="yaw_3_4_5", ego_q2="yaw_neg", crit_kind="dist"), dict(ego_q="yaw90", ego_q2="yaw_3_4_5", crit_kind="xy")]
    return [
        Obligation("pose_update_both_frames", pose_update_both_frames, cases=upd, extras=S.frame_extras,
                   desc="a frame derived from an evaluated key frame (same transform registry, new ego pose) evaluates "
                        "like its ego-frame rendering"),
        Obligation("detection_both_frames", detection_both_frames, cases=det, extras=S.frame_extras,
                   desc="one scene rendered in the ego frame and in the map frame: same filtering, pairing, TP/FP/FN/TN, "
                        "AP/APH"),
        Obligation("tracking_both_frames", tracking_both_frames, cases=trk, extras=S.frame_extras,
                   desc="two consecutive frames rendered in both frames: same CLEAR outputs"),
    ]


def meta(pid):
    return {
        "functions": ["evaluation.matching.objects_filter._is_target_object/filter_objects/filter_object_results",
                      "evaluation.result.perception_frame_result.PerceptionFrameResult.evaluate_frame",
                      "evaluation.result.object_result.get_object_results", "evaluation.matching.object_matching.*",
                      "evaluation.metrics.detection.tp_metrics.TPMetricsAph.get_value", "common.object.DynamicObject."
                      "get_distance_bev/get_heading_bev", "common.transform.*", "evaluation.metrics.metrics.MetricsScore."
                      "evaluate_detection/evaluate_tracking", "evaluation.metrics.tracking.clear.CLEAR"],
        "files": ["evaluation/matching/objects_filter.py", "evaluation/result/perception_frame_result.py",
                  "evaluation/matching/object_matching.py", "evaluation/metrics/detection/tp_metrics.py", "common/object.py",
                  "common/transform.py", "evaluation/metrics/metrics.py"],
        "bounds": {"quick": "scenes of <= 2x1 / 1x2 objects with symbolic ego-relative x (estimates rotated ~14 deg against "
                            "ground truths), ego yaw atan(4/3) and -atan(3/4)x2, symbolic ego translation, critical filter x/y "
                            "or ring with symbolic bounds, centre- and plane-distance metrics; tracking: 2 frames x 1 object",
                   "thorough": "four ego yaws, 2x2 scenes under the two axis-aligned ones, tracking 2 frames x 1 object under three ego-pose pairs"},
        "outside": ["ego yaws outside the exact-rotation set", "decisions within float rounding of their boundary (the "
                    "statement's proviso)", "unit-level frame independence of filters (C10), scores (C06) and heading (C09) is "
                    "decided there against ego-relative oracles for both renderings"],
        "stand_ins": ["numpy proxy, Rot (exact), ConvexPolygon, lazy matching wrappers"],
        "assumptions": ["floats modelled as exact reals; score equalities up to 1e-7",
                        "the squared ego distances of a ground truth's footprint corners differ pairwise by more than 0.01 "
                        "m^2 (no tie in the nearest-side selection of the plane distance) - the statement's own proviso"],
    }
