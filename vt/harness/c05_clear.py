"""C05 - CLEAR tracking scores follow their definitions for every history."""
from perception_eval.common.label import AutowareLabel, Label
from perception_eval.common.object import DynamicObject
from perception_eval.common.schema import FrameID
from perception_eval.common.shape import Shape, ShapeType
import perception_eval.evaluation.result.object_result as OR
from perception_eval.evaluation.matching import MatchingMode
from perception_eval.evaluation.metrics.tracking.clear import CLEAR
from perception_eval.evaluation.metrics.tracking.tracking_metrics_score import TrackingMetricsScore

from .. import build, symx
from ..lazy import lazy_extras
from ..runner import Obligation, Out
from ..symx import L, assume, choose, flag, integer, real

CAR, BUS, PED = AutowareLabel.CAR, AutowareLabel.BUS, AutowareLabel.PEDESTRIAN


def _obj(uid, label, x, y):
    return DynamicObject(0, FrameID.BASE_LINK, (x, y, 0.0), build.mkrot(), Shape(ShapeType.BOUNDING_BOX, (2.0, 4.0, 1.5)),
                         None, 0.9, Label(label, label.value), uuid=uid)


class R:
    """one result of one frame: ids, labels, score, and the real repository object"""

    def __init__(self, f, r, est_labels, ids):
        self.key = f"f{f}r{r}"
        self.el = choose(self.key + "_est_label", est_labels)
        self.has_gt = flag(self.key + "_has_gt")
        self.eid = integer(self.key + "_est_id", 0, ids)
        self.gid = integer(self.key + "_gt_id", 0, ids) if self.has_gt else None
        self.d = real(self.key + "_dist", 0, 50)
        est = _obj(self.eid, self.el, self.d, 10.0 * r)
        gt = _obj(self.gid, CAR, 0.0, 10.0 * r) if self.has_gt else None
        self.res = OR.DynamicObjectWithPerceptionResult(est, gt)


def _frame(f, rmax, est_labels, ids, optional=True):
    rows = []
    for r in range(rmax):
        if optional and not flag(f"f{f}r{r}_present"):
            continue
        rows.append(R(f, r, est_labels, ids))
    # documented input contract: estimate ids distinct per label and ground-truth ids distinct within a frame
    for i in range(len(rows)):
        for j in range(i + 1, len(rows)):
            if rows[i].el == rows[j].el:
                assume(rows[i].eid != rows[j].eid)
            if rows[i].has_gt and rows[j].has_gt:
                assume(rows[i].gid != rows[j].gid)
    return rows


MODE = {"center": MatchingMode.CENTERDISTANCE, "plane": MatchingMode.PLANEDISTANCE, "iou2d": MatchingMode.IOU2D}
_mode = ["center"]  # matching mode of the obligation being executed (set by pair_step)


def _score(r):
    """matching score of a result whose estimate is the ground-truth box (2 x 4 m, same heading) shifted by r.d along its
    length: centre distance d; plane distance d (both nearest corners are shifted by d); BEV IoU = overlap / union"""
    if _mode[0] != "iou2d":
        return r.d
    inter = L.If(r.d < 4, 2 * (4 - r.d), 0)
    return inter / (16 - inter)


def _own_tp(r, thr):
    # the evaluated label is car; ground truths are cars; label policy DEFAULT
    if _mode[0] == "iou2d":
        return L.And(r.has_gt, r.el == CAR, _score(r) > thr)
    return L.And(r.has_gt, r.el == CAR, r.d < thr)


def spec_pair(cur, prev, thr):
    """(tp, fp, switches, score sum, per-result flags) of one consecutive frame pair, from the statement."""
    tp = fp = sw = 0
    score = 0
    for c in cur:
        if not c.has_gt and c.el != CAR:
            continue  # not a result of the evaluated label
        same_terms, sw_terms = [], []
        for p in prev:
            if not (c.has_gt and p.has_gt):
                continue
            ptp = _own_tp(p, thr)
            same_e = L.And(c.eid == p.eid, c.el == p.el)
            same_g = c.gid == p.gid
            same_terms.append((L.And(ptp, same_e, same_g), p))
            sw_terms.append(L.And(ptp, L.Or(L.And(same_e, L.Not(same_g)), L.And(same_g, L.Not(same_e)))))
        same = L.Or(*[t for t, _ in same_terms])
        switched = L.Or(*sw_terms)
        own = _own_tp(c, thr)
        is_tp = L.Or(same, own)
        tp = tp + L.If(is_tp, 1, 0)
        fp = fp + L.If(is_tp, 0, 1)
        sw = sw + L.If(L.And(L.Not(same), own, switched), 1, 0)
        s = L.If(own, _score(c), 0)
        for t, p in same_terms:  # a continuing pair carries the previous frame's score (documented NOTE)
            s = L.If(t, _score(p), s)
        score = score + L.If(is_tp, s, 0)
    return tp, fp, sw, score


def _considered(rows):
    return sum(1 for c in rows if c.has_gt or c.el == CAR)


def _mota(tp, fp, sw, ngt):
    if ngt == 0:
        return float("inf")
    v = (tp - fp - sw) / ngt
    return L.If(v > 0, v, 0)


def pair_step(rmax, ngt, est_labels, ids, mode="center"):
    """CLEAR on [previous, current] for arbitrary frames: accounting, switches, MOTA/MOTP formulas."""
    _mode[0] = mode
    try:
        return _pair_step(rmax, ngt, est_labels, ids, mode)
    finally:
        _mode[0] = "center"


def _pair_step(rmax, ngt, est_labels, ids, mode):
    thr = real("threshold", 0, 1) if mode == "iou2d" else real("threshold", 0, 20, lo_strict=True)
    labels = [CAR, BUS] if est_labels == "two" else [CAR]
    prev = _frame(0, rmax, labels, ids)
    cur = _frame(1, rmax, labels, ids)
    history = [[r.res for r in prev], [r.res for r in cur]]
    before = [list(fr) for fr in history]
    cl = CLEAR(history, ngt, [CAR], MODE[mode], [thr])
    cl_again = CLEAR(history, ngt, [CAR], MODE[mode], [thr])  # the same history scored twice
    tp, fp, sw, score = spec_pair(cur, prev, thr)
    parts = {
        "every_result_tp_or_fp": L.close(cl.tp + cl.fp, _considered(cur), 0),
        "tp_count": L.close(cl.tp, tp, 0),
        "fp_count": L.close(cl.fp, fp, 0),
        "id_switch_count": L.close(cl.id_switch, sw, 0),
        "tp_score_sum": L.close(cl.tp_matching_score, score, 1e-9),
        "predict_num": cl.objects_results_num == len(cur),
        "history_untouched": len(history) == 2 and all(len(a) == len(b) and all(x is y for x, y in zip(a, b))
                                                       for a, b in zip(history, before)),
        "second_scoring_equal": L.And(L.close(cl.tp, cl_again.tp, 0), L.close(cl.fp, cl_again.fp, 0),
                                      L.close(cl.id_switch, cl_again.id_switch, 0),
                                      L.close(cl.tp_matching_score, cl_again.tp_matching_score, 1e-9)),
    }
    parts["mota_formula"] = L.close(cl.mota, _mota(tp, fp, sw, ngt), 1e-9)
    if symx.is_sym(cl.tp) or cl.tp != 0:
        parts["motp_is_mean_tp_score"] = L.close(cl.motp * cl.tp, score, 1e-9)
        scores = [_score(r) for r in prev + cur if r.has_gt]
        parts["motp_within_score_range"] = L.And(cl.motp >= L.Min(*scores) - 1e-9, cl.motp <= L.Max(*scores) + 1e-9)
    else:
        parts["motp_undefined_without_tp"] = cl.motp == float("inf")
    parts["results_dict"] = (cl.results["tp"] is cl.tp or cl.results["tp"] == cl.tp) and cl.results["id_switch"] == cl.id_switch
    return Out(parts=parts, obs={"tp": cl.tp, "fp": cl.fp, "sw": cl.id_switch, "mota": cl.mota, "motp": cl.motp})


def accumulator(frames, rmax, ngt, optional=True):
    """CLEAR over F frames = sums of the per-pair values (checked by pair_step) + formulas of the sums."""
    thr = real("threshold", 0, 20, lo_strict=True)
    hist = [_frame(f, rmax, [CAR], 2 if rmax > 1 else 3, optional=optional) for f in range(frames)]
    cl = CLEAR([[r.res for r in fr] for fr in hist], ngt, [CAR], MatchingMode.CENTERDISTANCE, [thr])
    tp = fp = sw = 0
    score = 0
    n = 0
    for f in range(1, frames):
        a, b, c, d = spec_pair(hist[f], hist[f - 1], thr)
        tp, fp, sw, score = tp + a, fp + b, sw + c, score + d
        n += len(hist[f])
    parts = {
        "every_result_tp_or_fp": L.close(cl.tp + cl.fp, sum(_considered(hist[f]) for f in range(1, frames)), 0),
        "tp_count": L.close(cl.tp, tp, 0), "fp_count": L.close(cl.fp, fp, 0),
        "id_switch_count": L.close(cl.id_switch, sw, 0),
        "tp_score_sum": L.close(cl.tp_matching_score, score, 1e-9),
        "mota_formula": L.close(cl.mota, _mota(tp, fp, sw, ngt), 1e-9),
        "first_frame_only_previous": cl.objects_results_num == n,
    }
    return Out(parts=parts, obs={"tp": cl.tp, "fp": cl.fp, "sw": cl.id_switch, "mota": cl.mota})


def renaming(rmax):
    """Scores are unchanged by a consistent (injective) renaming of estimate and ground-truth ids."""
    thr = real("threshold", 0, 20, lo_strict=True)
    prev = _frame(0, rmax, [CAR], 3)
    cur = _frame(1, rmax, [CAR], 3)
    rows = prev + cur
    new_e = {r.key: integer(r.key + "_est_id_renamed", 100, 200) for r in rows}
    new_g = {r.key: integer(r.key + "_gt_id_renamed", 100, 200) for r in rows if r.has_gt}
    for i in range(len(rows)):
        for j in range(i + 1, len(rows)):
            a, b = rows[i], rows[j]
            assume(L.Iff(a.eid == b.eid, new_e[a.key] == new_e[b.key]))
            if a.has_gt and b.has_gt:
                assume(L.Iff(a.gid == b.gid, new_g[a.key] == new_g[b.key]))

    def renamed(r):
        est = _obj(new_e[r.key], r.el, r.d, r.res.estimated_object.state.position[1])
        gt = _obj(new_g[r.key], CAR, 0.0, r.res.estimated_object.state.position[1]) if r.has_gt else None
        return OR.DynamicObjectWithPerceptionResult(est, gt)

    c1 = CLEAR([[r.res for r in prev], [r.res for r in cur]], 3, [CAR], MatchingMode.CENTERDISTANCE, [thr])
    c2 = CLEAR([[renamed(r) for r in prev], [renamed(r) for r in cur]], 3, [CAR], MatchingMode.CENTERDISTANCE, [thr])
    parts = {"renaming_invariant": L.And(L.close(c1.tp, c2.tp, 0), L.close(c1.fp, c2.fp, 0),
                                         L.close(c1.id_switch, c2.id_switch, 0), L.close(c1.mota, c2.mota, 1e-9),
                                         L.close(c1.tp_matching_score, c2.tp_matching_score, 1e-9),
                                         (c1.motp == c2.motp) if not symx.is_sym(c1.motp) and not symx.is_sym(c2.motp)
                                         else L.close(c1.motp, c2.motp, 1e-9))}
    return Out(parts=parts, obs={"tp": c1.tp, "sw": c1.id_switch, "tp2": c2.tp, "sw2": c2.id_switch})


def scenarios(kind, frames, k):
    """The three named scenarios with k targets, symbolic scores below the threshold."""
    thr = real("threshold", 1, 20)
    ids = list(range(k))
    hist = []
    switch_at = frames // 2 if frames > 2 else 1
    for f in range(frames):
        fr = []
        for t in range(k):
            d = real(f"f{f}t{t}_dist", 0, 1, hi_strict=True)
            eid = ids[t]
            if kind == "new_id" and t == 0 and f >= switch_at:
                eid = 100  # continuing target 0 gets a fresh track id
            if kind == "exchange" and f >= switch_at and t in (0, 1) and k >= 2:
                eid = ids[1 - t]  # tracks 0 and 1 swap identities
            fr.append(OR.DynamicObjectWithPerceptionResult(_obj(eid, CAR, d, 10.0 * t), _obj(1000 + t, CAR, 0.0, 10.0 * t)))
        hist.append(fr)
    ngt = k * (frames - 1)
    cl = CLEAR(hist, ngt, [CAR], MatchingMode.CENTERDISTANCE, [thr])
    expected_switch = {"perfect": 0, "new_id": 1, "exchange": 2 if k >= 2 else 0}[kind]
    parts = {"switches": cl.id_switch == expected_switch,
             "all_tp": L.close(cl.tp, ngt, 0), "no_fp": L.close(cl.fp, 0, 0),
             "mota": L.close(cl.mota, (ngt - expected_switch) / ngt, 1e-9)}
    if kind == "perfect":
        parts["perfect_mota_one"] = L.close(cl.mota, 1.0, 1e-12)
    return Out(parts=parts, obs={"sw": cl.id_switch, "mota": cl.mota})


def sum_clear(n_car, n_ped):
    """TrackingMetricsScore over two labels: per-label CLEARs and the ground-truth-weighted totals."""
    thr = [real("thr_car", 1, 20), real("thr_ped", 1, 20)]

    dist = {}

    def hist(label, n, tag, base):
        out = []
        for f in range(2):
            fr = []
            for t in range(n):
                d = real(f"{tag}f{f}t{t}_dist", 0, 30)
                dist[(label, f, t)] = d
                fr.append(OR.DynamicObjectWithPerceptionResult(_obj(base + t, label, d, 10.0 * t),
                                                               _obj(base + 500 + t, label, 0.0, 10.0 * t)))
            out.append(fr)
        return out

    res = {CAR: hist(CAR, n_car, "car", 0), PED: hist(PED, n_ped, "ped", 50)}
    ngt = {CAR: n_car + 1, PED: n_ped}
    ts = TrackingMetricsScore(res, ngt, [CAR, PED], MatchingMode.CENTERDISTANCE, thr)
    mota, motp, sw = ts._sum_clear()
    cs = ts.clears
    parts = {"one_clear_per_label": len(cs) == 2 and cs[0].num_ground_truth == ngt[CAR] and cs[1].num_ground_truth == ngt[PED]}
    # every label is judged against its own threshold: a track is a TP in the second frame iff it was one in the first
    # (the same pairing continues) or is within the label's threshold now
    for c, label, n, t_l in ((cs[0], CAR, n_car, thr[0]), (cs[1], PED, n_ped, thr[1])):
        want = 0
        for t in range(n):
            want = want + L.If(L.Or(dist[(label, 0, t)] < t_l, dist[(label, 1, t)] < t_l), 1, 0)
        parts[f"{label.value}_tp_under_its_own_threshold"] = L.And(L.close(c.tp, want, 1e-9), L.close(c.tp + c.fp, n, 1e-9))
    tot_gt = ngt[CAR] + ngt[PED]
    num = 0
    for c in cs:
        if not (not symx.is_sym(c.mota) and c.mota == float("inf")):
            num = num + c.mota * c.num_ground_truth
    if tot_gt > 0:
        v = num / tot_gt
        parts["total_mota_gt_weighted"] = L.close(mota, L.If(v > 0, v, 0), 1e-9)
    tot_tp = sum(int(c.tp) for c in cs)
    if tot_tp > 0:
        s = 0
        for c in cs:
            s = s + c.tp_matching_score
        parts["total_motp_tp_weighted"] = L.close(motp * tot_tp, s, 1e-9)
    parts["total_switches"] = sw == sum(c.id_switch for c in cs)
    return Out(parts=parts, obs={"mota": mota, "motp": motp, "sw": sw})


def obligations(pid, tier):
    quick = tier == "quick"
    pair = []
    for rmax, labels, ids in ([(1, "two", 2), (2, "one", 2), (2, "two", 2)] if quick
                              else [(1, "two", 2), (2, "two", 3), (3, "one", 3)]):
        for ngt in ((0, 1, 3) if rmax < 3 else (0, 2)):  # three results per frame: one ground-truth count (run time)
            base = dict(rmax=rmax, ngt=ngt, est_labels=labels, ids=ids)
            if rmax >= 2:
                for a in (0, 1):
                    for b in (0, 1):
                        for c in (0, 1):
                            pair.append(dict(base, _presets={"f0r0_present": a, "f0r1_present": b, "f1r0_present": c}))
            else:
                pair.append(base)
    pair += [dict(rmax=1, ngt=n, est_labels="two", ids=2, mode=m) for m in ("plane", "iou2d") for n in (0, 2)]
    if not quick:
        pair += [dict(rmax=2, ngt=3, est_labels="one", ids=2, mode=m) for m in ("plane", "iou2d")]
    acc = [dict(frames=3, rmax=1, ngt=2), dict(frames=4, rmax=1, ngt=0), dict(frames=3, rmax=2, ngt=4, optional=False)] \
        if quick else [dict(frames=3, rmax=2, ngt=4), dict(frames=4, rmax=1, ngt=3), dict(frames=5, rmax=1, ngt=0)]
    acc2 = []
    for c in acc:
        if c["rmax"] >= 2:
            keys = [f"f{f}r{r}_has_gt" for f in range(2) for r in range(2)]
            if c.get("optional", True):
                keys = [f"f{f}r{r}_present" for f in range(2) for r in range(2)] + ["f0r0_has_gt", "f1r0_has_gt"]
            for bits in range(2 ** len(keys)):
                acc2.append(dict(c, _presets={k: (bits >> i) & 1 for i, k in enumerate(keys)}))
        else:
            acc2.append(c)
    scen = [dict(kind=k, frames=f, k=n) for k in ("perfect", "new_id", "exchange") for f in ((2, 3, 4) if quick else (2, 3, 4, 6))
            for n in ((1, 2, 3) if quick else (1, 2, 3, 4)) if not (k == "exchange" and n < 2)]
    return [
        Obligation("pair_step", pair_step, cases=pair, extras=lazy_extras,
                   desc="CLEAR on an arbitrary (previous, current) frame pair vs the definitions; with the accumulator "
                        "obligation this covers histories of any length for per-frame sizes within the bound"),
        Obligation("accumulator", accumulator, cases=acc2, extras=lazy_extras,
                   desc="CLEAR over F frames equals the sums of the per-pair values and the MOTA formula of the sums"),
        Obligation("renaming", renaming, cases=[dict(rmax=1), dict(rmax=2)], extras=lazy_extras,
                   desc="scores invariant under injective renaming of estimate / ground-truth ids"),
        Obligation("scenarios", scenarios, cases=scen, extras=lazy_extras,
                   desc="perfect tracker, new id on a continuing target (1 switch), identity exchange (2 switches)"),
        Obligation("sum_clear", sum_clear, cases=[dict(n_car=a, n_ped=b) for a in (0, 1, 2) for b in (0, 1)],
                   extras=lazy_extras, desc="TrackingMetricsScore: per-label CLEAR and ground-truth-weighted totals"),
    ]


def meta(pid):
    return {
        "functions": ["evaluation.metrics.tracking.clear.CLEAR.__init__/_calculate_tp_fp/_is_id_switched/_is_same_match/"
                      "_calculate_score/results", "evaluation.metrics.tracking.tracking_metrics_score.TrackingMetricsScore."
                      "__init__/_sum_clear", "evaluation.metrics.tracking._metrics_base._TrackingMetricsBase",
                      "evaluation.result.object_result.DynamicObjectWithPerceptionResult.is_result_correct"],
        "files": ["evaluation/metrics/tracking/clear.py", "evaluation/metrics/tracking/tracking_metrics_score.py",
                  "evaluation/metrics/tracking/_metrics_base.py", "evaluation/result/object_result.py"],
        "bounds": {"quick": "pair step: <= 2 results per frame (each optional), estimate label {car,bus}, ground truth "
                            "present or not, symbolic integer ids (alphabet of 3), symbolic scores and threshold, "
                            "ground-truth count {0,1,3}, centre distance (plane distance and BEV IoU: 1 result per frame); accumulator: 3 frames x <= 2 results; renaming: <= 2 per frame; "
                            "scenarios: 2..4 frames x 1..3 targets",
                   "thorough": "pair step <= 3 results per frame; accumulator up to 5 frames x 1 or 3 frames x 2; scenarios up to 6 "
                               "frames x 4 targets"},
        "outside": ["more results per frame than the bound", "long random histories (the quantifier's random part)",
                    "IoU3D mode and rotated boxes (scores are C06's subject)", "tp metrics other than AP"],
        "stand_ins": ["lazy matching wrappers", "numpy proxy"],
        "assumptions": ["within a frame estimate ids are distinct per label and ground-truth ids are distinct (documented "
                        "input contract)", "a pair continuing a previous-frame TP carries the previous frame's score "
                        "(documented NOTE in the code); the exact MOTP mean is asserted with that convention",
                        "ground truths carry the evaluated label; label policy DEFAULT"],
    }
