"""C09 - heading comparisons use the true minimal yaw difference (all angle pairs, symbolic)."""
import math
from fractions import Fraction

from perception_eval.common.label import AutowareLabel, Label
from perception_eval.common.object import DynamicObject
from perception_eval.common.schema import FrameID
from perception_eval.common.shape import Shape, ShapeType
import perception_eval.common.object as PO
import perception_eval.evaluation.result.object_result as OR
from perception_eval.common.transform import HomogeneousMatrix, TransformDict
from perception_eval.evaluation.metrics.detection.tp_metrics import TPMetricsAph

from .. import build, symx
from ..lazy import lazy_extras
from ..runner import Obligation, Out
from ..symnp import sym_float
from ..symx import L, assume, real

PI = Fraction(math.pi)
CAR = AutowareLabel.CAR
FRAMES = {"base_link": FrameID.BASE_LINK, "map": FrameID.MAP}


def _extras():
    return lazy_extras() + [(PO, "float", sym_float)]


def _obj(name, frame, theta, sign, x):
    return DynamicObject(0, frame, (x, 1.0, 0.0), build.mkrot_theta(theta, sign),
                         Shape(ShapeType.BOUNDING_BOX, (2.0, 4.0, 1.5)), None, 0.9, Label(CAR, "car"), uuid=name)


def _result(est, gt, frame):
    transforms = None
    if frame == "map":  # the result constructor needs the ego pose for map-frame objects (plane distance)
        transforms = TransformDict(HomogeneousMatrix((0.0, 0.0, 0.0), build.mkrot(), FrameID.BASE_LINK, FrameID.MAP))
    return OR.DynamicObjectWithPerceptionResult(est, gt, transforms=transforms)


def _angles():
    t1 = real("yaw_est", lo=-PI, hi=PI, lo_strict=True)
    t2 = real("yaw_gt", lo=-PI, hi=PI, lo_strict=True)
    return t1, t2


def _true_d(t1, t2):
    delta = abs(t1 - t2)
    return L.If(delta > PI, 2 * PI - delta, delta)


def aph_weight(frame, s1, s2):
    t1, t2 = _angles()
    est = _obj("e", FRAMES[frame], t1, s1, 5.0)
    gt = _obj("g", FRAMES[frame], t2, s2, 5.5)
    w = TPMetricsAph().get_value(_result(est, gt, frame))
    w_swapped = TPMetricsAph().get_value(_result(gt, est, frame))
    d = _true_d(t1, t2)
    exp = 1 - d / PI
    parts = {
        "weight_is_1_minus_d_over_pi": L.close(w, exp, 1e-9),
        "symmetric": L.close(w, w_swapped, 1e-9),
        "in_unit_interval": L.And(w >= 0, w <= 1),
    }
    known = {
        # recorded region: ego-frame pair in which a yaw is negative or a quaternion sign is -1
        "C09-heading-bev-uses-quaternion-angle": L.And(frame == "base_link",
                                                        L.Or(t1 < 0, t2 < 0, s1 < 0, s2 < 0)),
    }
    return Out(parts=parts, obs={"w": w, "w_swapped": w_swapped}, known=known)


def _wrap(a):
    return L.If(a > PI, a - 2 * PI, L.If(a <= -PI, a + 2 * PI, a))


def frame_independent(s1, s2):
    """The same physical pair rendered in the ego frame and in the map frame (ego yaw phi symbolic)."""
    t1, t2 = _angles()
    phi = real("ego_yaw", lo=-PI, hi=PI, lo_strict=True)
    e_ego, g_ego = _obj("e", FrameID.BASE_LINK, t1, s1, 5.0), _obj("g", FrameID.BASE_LINK, t2, s2, 5.5)
    e_map, g_map = _obj("e", FrameID.MAP, _wrap(t1 + phi), s1, 5.0), _obj("g", FrameID.MAP, _wrap(t2 + phi), s2, 5.5)
    w_ego = TPMetricsAph().get_value(_result(e_ego, g_ego, "base_link"))
    w_map = TPMetricsAph().get_value(_result(e_map, g_map, "map"))
    parts = {"ego_equals_map": L.close(w_ego, w_map, 1e-9),
             "map_weight_is_1_minus_d_over_pi": L.close(w_map, 1 - _true_d(t1, t2) / PI, 1e-9)}
    return Out(parts=parts, obs={"w_ego": w_ego, "w_map": w_map})


def heading_two_poses(s1, k1, k2):
    """get_heading_bev of one map-frame object under two different ego poses (quarter-turn ego yaws, symbolic object
    yaw): each answer is the ego-relative heading for *that* pose - nothing is remembered from the first call."""
    t1, _ = _angles()
    obj = _obj("o", FrameID.MAP, t1, s1, 5.0)
    outs = []
    for tag, k in (("a", k1), ("b", k2)):
        q = {0: (1, 0, 0, 0), 1: (1, 0, 0, 1), 2: (0, 0, 0, 1), 3: (1, 0, 0, -1)}[k]
        tr = TransformDict(HomogeneousMatrix((real(f"ego_{tag}_tx", -50, 50), 3.0, 0.0), build.mkrot(q), FrameID.BASE_LINK,
                                             FrameID.MAP))
        got = obj.get_heading_bev(tr)
        rel = _wrap(t1 - k * PI / 2)          # ego-relative yaw
        exp = -rel - PI / 2
        exp = L.If(exp > PI, exp - 2 * PI, L.If(exp < -PI, exp + 2 * PI, exp))
        outs.append((got, exp))
    parts = {"first_pose": L.Or(L.close(outs[0][0], outs[0][1], 1e-9), L.close(abs(outs[0][0] - outs[0][1]), 2 * PI, 1e-9)),
             "second_pose": L.Or(L.close(outs[1][0], outs[1][1], 1e-9), L.close(abs(outs[1][0] - outs[1][1]), 2 * PI, 1e-9))}
    return Out(parts=parts, obs={"h": [outs[0][0], outs[1][0]]})


def yaw_error(s1, s2):
    t1, t2 = _angles()
    est = _obj("e", FrameID.BASE_LINK, t1, s1, 5.0)
    gt = _obj("g", FrameID.BASE_LINK, t2, s2, 5.5)
    res = OR.DynamicObjectWithPerceptionResult(est, gt)
    e_fwd = res.heading_error[2]
    e_bwd = gt.get_heading_error(est)[2]
    d = _true_d(t1, t2)
    parts = {
        "in_range": L.And(e_fwd >= -PI - 1e-9, e_fwd <= PI + 1e-9, e_bwd >= -PI - 1e-9, e_bwd <= PI + 1e-9),
        "magnitude_is_d_estimate_first": L.close(abs(e_fwd), d, 1e-9),
        "magnitude_is_d_ground_truth_first": L.close(abs(e_bwd), d, 1e-9),
        "roll_pitch_error_zero": L.And(L.close(res.heading_error[0], 0.0), L.close(res.heading_error[1], 0.0)),
    }
    diff = t2 - t1
    known = {
        # recorded region: the raw difference yaw_other - yaw_self lies in (-pi, 0)
        "C09-heading-error-clip-negative": L.Or(L.And(diff < 0, diff > -PI), L.And(-diff < 0, -diff > -PI)),
    }
    return Out(parts=parts, obs={"fwd": e_fwd, "bwd": e_bwd}, known=known)


TILTED = {"flat_30": (4, 0, 0, 1), "rolled": (20, 2, 0, 5), "pitched": (20, 0, -3, -30), "both": (10, 1, 2, 40),
          "back": (1, 0, 0, -9)}


def _yaw_zyx(q):
    """heading convention of the library: the yaw of pyquaternion's yaw-pitch-roll decomposition of the orientation"""
    w, x, y, z = (float(v) for v in q)
    n = math.sqrt(w * w + x * x + y * y + z * z)
    w, x, y, z = w / n, x / n, y / n, z / n
    return math.atan2(2 * (w * z - x * y), 1 - 2 * (y * y + z * z))


def aph_weight_tilted(frame, qe, qg):
    """boxes with roll / pitch (exact 3-D orientations from a catalogue - no symbolic orientation here, the positions are
    symbolic): the weight depends on the two yaws only."""
    est = DynamicObject(0, FRAMES[frame], (real("e_x", -50, 50), 1.0, 0.0), build.mkrot(TILTED[qe]),
                        Shape(ShapeType.BOUNDING_BOX, (2.0, 4.0, 1.5)), None, 0.9, Label(CAR, "car"), uuid="e")
    gt = DynamicObject(0, FRAMES[frame], (real("g_x", -50, 50), 1.0, 0.0), build.mkrot(TILTED[qg]),
                       Shape(ShapeType.BOUNDING_BOX, (2.0, 4.0, 1.5)), None, 0.9, Label(CAR, "car"), uuid="g")
    w = TPMetricsAph().get_value(_result(est, gt, frame))
    d = abs(_yaw_zyx(TILTED[qe]) - _yaw_zyx(TILTED[qg]))
    d = 2 * math.pi - d if d > math.pi else d
    parts = {"weight_is_1_minus_yaw_difference_over_pi": L.close(w, 1 - d / math.pi, 1e-9),
             "symmetric": L.close(w, TPMetricsAph().get_value(_result(gt, est, frame)), 1e-9)}
    return Out(parts=parts, obs={"w": w})


def _analyzer_yaw_error(frame, ego_q):
    from .c19_analysis import table_yaw_error
    return table_yaw_error(frame, ego_q)


def _frame_extras():
    from . import scene
    return scene.frame_extras()


def obligations(pid, tier):
    signs = [(1, 1), (1, -1), (-1, 1), (-1, -1)]
    return [
        Obligation("aph_weight", aph_weight, extras=_extras,
                   cases=[dict(frame=f, s1=a, s2=b) for f in FRAMES for a, b in signs],
                   desc="TPMetricsAph weight = 1 - d/pi for every yaw pair, both quaternion signs, ego and map frame"),
        Obligation("frame_independent", frame_independent, extras=_extras,
                   cases=[dict(s1=a, s2=b) for a, b in signs],
                   desc="weight of a pair rendered in the map frame under any ego yaw equals its ego-frame weight"),
        Obligation("heading_two_poses", heading_two_poses, extras=_extras,
                   cases=[dict(s1=s, k1=a, k2=b) for s in (1, -1) for a, b in ((0, 1), (2, 3), (1, 0))],
                   desc="heading of one map-frame object under two ego poses, one call after the other"),
        Obligation("aph_weight_tilted", aph_weight_tilted, extras=_extras,
                   cases=[dict(frame=f, qe=a, qg=b) for f in FRAMES for a in TILTED for b in TILTED if a != b],
                   desc="weight for boxes with roll / pitch (catalogue of 5 exact 3-D orientations, all ordered pairs): "
                        "depends on the yaw difference only"),
        Obligation("analyzer_yaw_error", _analyzer_yaw_error, extras=_frame_extras,
                   cases=[dict(frame="base_link", ego_q="id"), dict(frame="map", ego_q="yaw_3_4_5")],
                   desc="auxiliary (pandas layer, shared with C19): the yaw error the analysis table reports for a pair = "
                        "wrapped ground-truth-minus-estimate yaw, 49 heading pairs incl. both quaternion signs"),
        Obligation("yaw_error", yaw_error, extras=_extras, cases=[dict(s1=a, s2=b) for a, b in signs],
                   desc="reported yaw error lies in [-pi, pi] with magnitude d, in both orders"),
    ]


def meta(pid):
    return {
        "functions": ["evaluation.metrics.detection.tp_metrics.TPMetricsAph.get_value",
                      "common.object.DynamicObject.get_heading_bev", "common.object.DynamicObject.get_heading_error (+_clip)",
                      "evaluation.result.object_result.DynamicObjectWithPerceptionResult.heading_error",
                      "common.transform.TransformDict.transform / HomogeneousMatrix (identity map->base_link)"],
        "files": ["evaluation/metrics/detection/tp_metrics.py", "common/object.py", "evaluation/result/object_result.py",
                  "common/transform.py"],
        "bounds": "yaw_est, yaw_gt: all reals in (-pi, pi] (pi = the double math.pi as an exact rational); quaternion signs "
                  "(+,+),(+,-),(-,+),(-,-); frames base_link and map, ego yaw symbolic in (-pi, pi]; linear real arithmetic with ite and integer floor",
        "outside": ["symbolic orientations with roll/pitch (the angle-mode stand-in is yaw-only; tilted boxes are covered by a "
                    "catalogue of 5 exact 3-D orientations, concretely)", "float rounding"],
        "stand_ins": ["pyquaternion -> Rot in angle mode: yaw_pitch_roll = (theta,0,0), radians = sign*|theta| "
                      "(pyquaternion's wrap(2*atan2(|v|, w)) for a yaw-only quaternion), rotation matrix entries are "
                      "fresh (cos, sin) symbols mapped back to the angle by Quaternion(matrix=...)",
                      "module-level float() in common.object = identity on symbolic reals"],
        "assumptions": ["floats modelled as exact reals"],
    }
