"""C01 (one-to-one, complete) and C02 (label-compatible first, best score first) on get_object_results."""
import itertools

from perception_eval.common.evaluation_task import EvaluationTask
from perception_eval.common.label import AutowareLabel, Label
from perception_eval.common.object import DynamicObject
from perception_eval.common.object2d import DynamicObject2D
from perception_eval.common.schema import FrameID
from perception_eval.common.shape import Shape, ShapeType
import perception_eval.evaluation.matching.object_matching as OM
import perception_eval.evaluation.result.object_result as OR
from perception_eval.evaluation.matching import MatchingLabelPolicy, MatchingMode

from .. import build, symx
from ..runner import Obligation, Out
from ..symx import L, assume, choose, integer, real

CAR, PED, UNK, FP, BUS = (AutowareLabel.CAR, AutowareLabel.PEDESTRIAN, AutowareLabel.UNKNOWN, AutowareLabel.FP,
                          AutowareLabel.BUS)
TARGETS = [CAR, PED]
MODES = {"center": MatchingMode.CENTERDISTANCE, "plane": MatchingMode.PLANEDISTANCE, "iou2d": MatchingMode.IOU2D,
         "iou3d": MatchingMode.IOU3D}
MAXIMIZE = {"center": False, "plane": False, "iou2d": True, "iou3d": True}
POLICIES = {"default": MatchingLabelPolicy.DEFAULT, "allow_unknown": MatchingLabelPolicy.ALLOW_UNKNOWN,
            "allow_any": MatchingLabelPolicy.ALLOW_ANY}
TASKS = {"detection": EvaluationTask.DETECTION, "fp_validation": EvaluationTask.FP_VALIDATION,
         "detection2d": EvaluationTask.DETECTION2D, "fp_validation2d": EvaluationTask.FP_VALIDATION2D}


# ------------------------------------------------------------------------------------------------
# oracles written from the statement (independent of the repository's table code)


def compat(policy, e_label, g_label):
    if g_label == FP or policy == "allow_any":
        return True
    if policy == "allow_unknown":
        return e_label == g_label or e_label == UNK
    return e_label == g_label


def thr_of(label, thresholds):
    if thresholds is None:
        return None
    return thresholds[TARGETS.index(label)] if label in TARGETS else None


def better(a, b, maximize):
    """a at least as good as b"""
    return (a >= b) if maximize else (a <= b)


def beats(score, thr, maximize):
    return (score > thr) if maximize else (score < thr)


def check_matching(pid, ests, gts, ests_before, gts_before, res, exc, score, policy, maximize, thresholds, fpval):
    """Build the C01 / C02 obligations from inputs and the returned result list.
    `score(i, j)` gives the (symbolic) matching score of estimate i and ground truth j."""
    n, m = len(ests_before), len(gts_before)
    parts = {}
    if exc is not None:
        parts["c01_no_exception"] = False
        return parts, {"exception": type(exc).__name__}
    eidx = {id(o): i for i, o in enumerate(ests_before)}
    gidx = {id(o): j for j, o in enumerate(gts_before)}
    pairs = []  # (i, j or None) in result order
    foreign = False
    for r in res:
        i = eidx.get(id(r.estimated_object))
        j = gidx.get(id(r.ground_truth_object)) if r.ground_truth_object is not None else None
        if i is None or (r.ground_truth_object is not None and j is None):
            foreign = True
        pairs.append((i, j))
    used_e = [i for i, _ in pairs]
    used_g = [j for _, j in pairs if j is not None]

    def matchable(i, j):
        if ests_before[i].frame_id != gts_before[j].frame_id:
            return False
        t = thr_of(gts_before[j].semantic_label.label, thresholds)
        return True if t is None else beats(score(i, j), t, maximize)

    def comp(i, j):
        return compat(policy, ests_before[i].semantic_label.label, gts_before[j].semantic_label.label)

    # ---- C01
    parts["c01_only_input_objects"] = not foreign
    parts["c01_estimate_at_most_once"] = len(set(used_e)) == len(used_e)
    parts["c01_gt_at_most_once"] = len(set(used_g)) == len(used_g)
    parts["c01_same_frame"] = all(ests_before[i].frame_id == gts_before[j].frame_id for i, j in pairs if j is not None
                                  and i is not None)
    parts["c01_within_radius"] = L.And(*[matchable(i, j) for i, j in pairs if j is not None and i is not None])
    if fpval:
        parts["c01_fpval_only_paired"] = all(j is not None for _, j in pairs)
    else:
        parts["c01_every_estimate_once"] = sorted(i for i in used_e if i is not None) == list(range(n))
    parts["c01_inputs_untouched"] = (
        len(ests) == n and len(gts) == m and all(a is b for a, b in zip(ests, ests_before))
        and all(a is b for a, b in zip(gts, gts_before))
    )
    if foreign or not parts["c01_estimate_at_most_once"] or not parts["c01_gt_at_most_once"]:
        # not an assignment at all (an object used twice / a foreign object): it cannot be the greedy assignment either
        parts["c02_result_is_an_assignment"] = False
        return parts, {"pairs": pairs}
    parts["c02_result_is_an_assignment"] = True

    # ---- C02: stepwise greedy (each paired result is a best available pair of its stage) ...
    rem_e, rem_g = set(range(n)), set(range(m))
    steps = []
    for (i, j) in pairs:
        if j is None:
            continue
        avail = [(a, b) for a in sorted(rem_e) for b in sorted(rem_g)]
        any_comp = L.Or(*[L.And(matchable(a, b), comp(a, b)) for a, b in avail])
        best_comp = L.And(matchable(i, j), comp(i, j),
                          *[L.Implies(L.And(matchable(a, b), comp(a, b)), better(score(i, j), score(a, b), maximize))
                            for a, b in avail if (a, b) != (i, j)])
        best_any = L.And(matchable(i, j),
                         *[L.Implies(matchable(a, b), better(score(i, j), score(a, b), maximize))
                           for a, b in avail if (a, b) != (i, j)])
        steps.append(L.If(any_comp, best_comp, best_any))
        rem_e.discard(i)
        rem_g.discard(j)
    parts["c02_stepwise_greedy"] = L.And(*steps)
    # ... and nothing matchable is left over
    parts["c02_maximal"] = L.Not(L.Or(*[matchable(a, b) for a in rem_e for b in rem_g]))

    # ---- C02: no blocking pair, as the statement phrases it
    pe = {i: j for i, j in pairs}
    pg = {j: i for i, j in pairs if j is not None}
    blk = []
    for i in range(n):
        for j in range(m):
            if pe.get(i) == j:
                continue
            alts_c, alts_s = [], []
            je = pe.get(i)
            if je is not None:
                if comp(i, je):
                    alts_c.append(True)
                    alts_s.append(better(score(i, je), score(i, j), maximize))
                else:
                    alts_s.append(False)
                alts_any_e = better(score(i, je), score(i, j), maximize)
            else:
                alts_any_e = False
            ig = pg.get(j)
            if ig is not None:
                if comp(ig, j):
                    alts_c.append(True)
                alts_any_g = better(score(ig, j), score(i, j), maximize)
            else:
                alts_any_g = False
            if comp(i, j):
                ok = L.Or(
                    L.And(je is not None and comp(i, je), alts_any_e),
                    L.And(ig is not None and comp(ig, j), alts_any_g),
                )
            else:
                ok = L.Or(bool(alts_c), alts_any_e, alts_any_g)
            blk.append(L.Implies(matchable(i, j), ok))
    parts["c02_no_blocking_pair"] = L.And(*blk)
    return parts, {"pairs": pairs}


def select(pid, parts):
    pre = pid.lower() + "_"
    return {k: v for k, v in parts.items() if k.startswith(pre)}


# ------------------------------------------------------------------------------------------------
# (ii) abstract score table: the real matching classes with only `_calculate_matching_score` replaced
# by an unconstrained non-negative score per pair (a recorded cut: score geometry is C06's subject)

_TABLE = {}


def _abs(cls):
    class Abstract(cls):
        def _calculate_matching_score(self, estimated_object, ground_truth_object, transforms=None):
            if ground_truth_object is None:
                return None
            return _TABLE[(id(estimated_object), id(ground_truth_object))]

    Abstract.__name__ = "Abstract" + cls.__name__
    return Abstract


def _abstract_extras():
    return [
        (OR, "CenterDistanceMatching", _abs(OM.CenterDistanceMatching)),
        (OR, "PlaneDistanceMatching", _abs(OM.PlaneDistanceMatching)),
        (OR, "IOU2dMatching", _abs(OM.IOU2dMatching)),
        (OR, "IOU3dMatching", _abs(OM.IOU3dMatching)),
    ]


def _conf(name):
    """estimates carry increasing confidences (e0 < e1 < ...): any confidence-driven reordering of a caller's list shows"""
    return 0.3 + 0.15 * int(name[1:]) if name[0] == "e" and name[1:].isdigit() else 0.5


def _mk3d(name, frame, label, x=0.0, y=0.0, score=None, size=(1.0, 1.0, 1.0)):
    score = _conf(name) if score is None else score
    return DynamicObject(0, frame, (x, y, 0.0), build.mkrot(), Shape(ShapeType.BOUNDING_BOX, size), None, score,
                         Label(label, label.value), uuid=name)


def _mk2d(name, frame, label, roi, score=None):
    score = _conf(name) if score is None else score
    return DynamicObject2D(0, frame, score, Label(label, label.value), roi=roi, uuid=name)


def abstract_scene(pid, n, m, mode, policy, task, thr, labels, frames, dim):
    is2d = dim == "2d"
    e_labels = [choose(f"e{i}_label", labels["est"]) for i in range(n)]
    g_labels = [choose(f"g{j}_label", labels["gt"]) for j in range(m)]
    fr = [FrameID.CAM_FRONT, FrameID.CAM_BACK] if is2d else [FrameID.BASE_LINK, FrameID.MAP]
    e_fr = [fr[0] if (i == 0 or not frames) else choose(f"e{i}_frame", fr) for i in range(n)]
    g_fr = [choose(f"g{j}_frame", fr) if frames else fr[0] for j in range(m)]
    if is2d:
        ests = [_mk2d(f"e{i}", e_fr[i], e_labels[i], (10 * i, 0, 4, 4)) for i in range(n)]
        gts = [_mk2d(f"g{j}", g_fr[j], g_labels[j], (10 * j, 50, 4, 4)) for j in range(m)]
    else:
        ests = [_mk3d(f"e{i}", e_fr[i], e_labels[i], x=float(3 * i), y=1.0) for i in range(n)]
        gts = [_mk3d(f"g{j}", g_fr[j], g_labels[j], x=float(3 * j), y=-1.0) for j in range(m)]
    maximize = MAXIMIZE[mode]
    table = {}
    _TABLE.clear()
    for i in range(n):
        for j in range(m):
            s = real(f"s_{i}_{j}", lo=0, hi=1 if maximize else None)
            table[(i, j)] = s
            _TABLE[(id(ests[i]), id(gts[j]))] = s
    thresholds = None
    if thr:
        thresholds = [real(f"thr_{k}", lo=0, hi=1 if maximize else None) for k in range(len(TARGETS))]
    ests_in, gts_in = list(ests), list(gts)
    res, exc = None, None
    try:
        if symx.is_symbolic():
            res = OR.get_object_results(TASKS[task], ests_in, gts_in, target_labels=TARGETS,
                                        matching_label_policy=POLICIES[policy], matching_mode=MODES[mode],
                                        matchable_thresholds=thresholds)
        else:
            saved = {k: getattr(OR, k) for k in ("CenterDistanceMatching", "PlaneDistanceMatching", "IOU2dMatching",
                                                  "IOU3dMatching")}
            try:
                for mod, k, v in _abstract_extras():
                    setattr(mod, k, v)
                res = OR.get_object_results(TASKS[task], ests_in, gts_in, target_labels=TARGETS,
                                            matching_label_policy=POLICIES[policy], matching_mode=MODES[mode],
                                            matchable_thresholds=thresholds)
            finally:
                for k, v in saved.items():
                    setattr(OR, k, v)
    except Exception as e:  # noqa
        exc = e
    parts, obs = check_matching(pid, ests_in, gts_in, ests, gts, res, exc, lambda i, j: table[(i, j)], policy,
                                maximize, thresholds, TASKS[task].is_fp_validation())
    return Out(parts=select(pid, parts), obs=obs)


# ------------------------------------------------------------------------------------------------
# (i) real geometry


def real_scene(pid, n, m, mode, policy, task, thr, e_labels, g_labels, mixed_sizes=False):
    """3-D boxes on a line (x symbolic), real matching classes.  mixed_sizes: boxes of different sizes, so that
    co-centred objects (equal under DynamicObject.__eq__, which ignores the size) score differently."""
    maximize = MAXIMIZE[mode]
    sizes = [(1.0, 2.0, 1.0), (1.5, 3.0, 1.0), (0.8, 1.2, 1.0)] if mixed_sizes else [(1.0, 2.0, 1.0)] * 3
    ests = [_mk3d(f"e{i}", FrameID.BASE_LINK, e_labels[i], x=real(f"e{i}_x", lo=-50, hi=50), y=0.0,
                  size=sizes[i]) for i in range(n)]
    gts = [_mk3d(f"g{j}", FrameID.BASE_LINK, g_labels[j], x=real(f"g{j}_x", lo=-50, hi=50), y=0.0,
                 size=sizes[(j + 1) % 3]) for j in range(m)]
    thresholds = None
    if thr:
        thresholds = [real(f"thr_{k}", lo=0, hi=1 if maximize else None) for k in range(len(TARGETS))]
    ests_in, gts_in = list(ests), list(gts)
    res, exc = None, None
    try:
        res = OR.get_object_results(TASKS[task], ests_in, gts_in, target_labels=TARGETS,
                                    matching_label_policy=POLICIES[policy], matching_mode=MODES[mode],
                                    matchable_thresholds=thresholds)
    except Exception as e:  # noqa
        exc = e
    cls = {"center": OM.CenterDistanceMatching, "plane": OM.PlaneDistanceMatching, "iou2d": OM.IOU2dMatching,
           "iou3d": OM.IOU3dMatching}[mode]
    cache = {}

    def score(i, j):
        if (i, j) not in cache:
            cache[(i, j)] = cls(ests[i], gts[j]).value
        return cache[(i, j)]

    parts, obs = check_matching(pid, ests_in, gts_in, ests, gts, res, exc, score, policy, maximize, thresholds,
                                TASKS[task].is_fp_validation())
    if exc is None:
        # the same call again on the same objects (which now have a past) gives the same pairing
        try:
            res2 = OR.get_object_results(TASKS[task], ests_in, gts_in, target_labels=TARGETS,
                                         matching_label_policy=POLICIES[policy], matching_mode=MODES[mode],
                                         matchable_thresholds=thresholds)
            same = len(res2) == len(res) and all(a.estimated_object is b.estimated_object
                                                 and a.ground_truth_object is b.ground_truth_object
                                                 for a, b in zip(res, res2))
        except Exception:  # noqa
            same = False
        parts["c01_repeated_call_same_result"] = same
    return Out(parts=select(pid, parts), obs=obs)


def roi_scene(pid, n, m, mode, policy, task, thr, family="autoware"):
    """2-D objects with integer ROIs (x offset symbolic), real matching classes; Autoware or traffic-light labels (ROI
    objects are matched by geometry whatever their label family)."""
    global TARGETS
    saved = TARGETS
    if family == "traffic_light":
        from perception_eval.common.label import TrafficLightLabel as TL
        TARGETS = [TL.GREEN, TL.RED]
    try:
        return _roi_scene(pid, n, m, mode, policy, task, thr, family)
    finally:
        TARGETS = saved


def _roi_scene(pid, n, m, mode, policy, task, thr, family):
    maximize = MAXIMIZE[mode]
    label, cam = (CAR, FrameID.CAM_FRONT) if family == "autoware" else (TARGETS[0], FrameID.CAM_TRAFFIC_LIGHT_NEAR)
    ests = [_mk2d(f"e{i}", cam, label, (integer(f"e{i}_x", 0, 40), 0, 4, 6)) for i in range(n)]
    gts = [_mk2d(f"g{j}", cam, label, (integer(f"g{j}_x", 0, 40), 0, 4, 6)) for j in range(m)]
    thresholds = None
    if thr:
        thresholds = [real(f"thr_{k}", lo=0, hi=1 if maximize else None) for k in range(len(TARGETS))]
    ests_in, gts_in = list(ests), list(gts)
    res, exc = None, None
    try:
        res = OR.get_object_results(TASKS[task], ests_in, gts_in, target_labels=TARGETS,
                                    matching_label_policy=POLICIES[policy], matching_mode=MODES[mode],
                                    matchable_thresholds=thresholds)
    except Exception as e:  # noqa
        exc = e
    cls = {"center": OM.CenterDistanceMatching, "iou2d": OM.IOU2dMatching}[mode]
    cache = {}

    def score(i, j):
        if (i, j) not in cache:
            cache[(i, j)] = cls(ests[i], gts[j]).value
        return cache[(i, j)]

    parts, obs = check_matching(pid, ests_in, gts_in, ests, gts, res, exc, score, policy, maximize, thresholds,
                                TASKS[task].is_fp_validation())
    return Out(parts=select(pid, parts), obs=obs)


# ------------------------------------------------------------------------------------------------


def obligations(pid, tier):
    obs = []
    quick = tier == "quick"
    full_labels = {"est": [CAR, PED, UNK], "gt": [CAR, PED, UNK, FP]}
    small_labels = {"est": [CAR, UNK], "gt": [CAR, PED, FP]}

    def absfn(**kw):
        return abstract_scene(pid, **kw)

    cases = []
    sizes_small = [(1, 0), (2, 0), (0, 1), (1, 1), (1, 2), (2, 1)]
    for (n, m) in sizes_small:
        for mode in MODES:
            for policy in POLICIES:
                for task in ("detection", "fp_validation"):
                    for thr in (False, True):
                        if m == 0 and (thr or mode != "center" or policy != "default"):
                            continue
                        cases.append(dict(n=n, m=m, mode=mode, policy=policy, task=task, thr=thr, labels=full_labels,
                                          frames=True, dim="3d"))
    # 2x2: two score senses are enough for the abstract table (plane behaves as center, iou3d as iou2d)
    big = [(2, 2)] if quick else [(2, 2), (3, 2), (2, 3), (3, 3)]
    for (n, m) in big:
        for mode in ("center", "iou2d"):
            for policy in POLICIES:
                for task in ("detection", "fp_validation"):
                    for thr in (False, True):
                        lab = small_labels if (quick or n + m > 4) else full_labels
                        fr = (n + m) <= 4
                        if n + m > 5 and (thr or task == "fp_validation"):
                            continue
                        cases.append(dict(n=n, m=m, mode=mode, policy=policy, task=task, thr=thr, labels=lab,
                                          frames=fr, dim="3d"))
    # three (label-incompatible) estimates reaching the second stage: tiny label sets keep this cheap in the quick tier
    incompatible = {"est": [CAR], "gt": [PED, FP]}
    for (n, m) in [(3, 2), (3, 3)]:
        for mode in ("center", "iou2d"):
            for task in ("detection", "fp_validation"):
                for thr in ((False, True) if m == 2 else (False,)):
                    cases.append(dict(n=n, m=m, mode=mode, policy="default", task=task, thr=thr, labels=incompatible,
                                      frames=(m == 2), dim="3d"))
    # 2-D objects with ROI through the same table
    for (n, m) in [(1, 0), (1, 1), (2, 1), (1, 2)] + ([] if quick else [(2, 2)]):
        for mode in ("center", "iou2d"):
            for policy in ("default", "allow_unknown"):
                for task in ("detection2d", "fp_validation2d"):
                    if m == 0 and (mode != "center" or policy != "default"):
                        continue
                    cases.append(dict(n=n, m=m, mode=mode, policy=policy, task=task, thr=(n + m) % 2 == 1,
                                      labels=small_labels, frames=True, dim="2d"))
    obs.append(Obligation("abstract_table", absfn, cases=cases, extras=_abstract_extras,
                          desc="get_object_results with the real table/greedy code and an unconstrained score per pair",
                          witness_every=1 if quick else 3))

    def realfn(**kw):
        return real_scene(pid, **kw)

    rcases = []
    patterns = [((CAR,), (CAR,)), ((CAR, CAR), (CAR,)), ((CAR,), (CAR, CAR)), ((CAR, UNK), (CAR, PED)),
                ((CAR, PED), (PED, FP))]
    if not quick:
        patterns += [((CAR, CAR), (CAR, CAR)), ((CAR, PED, UNK), (CAR, PED)), ((CAR, CAR, CAR), (CAR, CAR, CAR))]
    for el, gl in patterns:
        for mode in (("center",) if quick else ("center", "iou2d", "plane", "iou3d")):
            if mode == "iou2d" and len(el) + len(gl) > 4:
                continue
            if mode in ("plane", "iou3d") and len(el) + len(gl) > 3:
                continue
            for policy in (("default", "allow_unknown") if len(set(el + gl)) > 1 else ("default",)):
                for task in ("detection", "fp_validation"):
                    for thr in (False, True):
                        rcases.append(dict(n=len(el), m=len(gl), mode=mode, policy=policy, task=task, thr=thr,
                                           e_labels=list(el), g_labels=list(gl)))
    # co-centred boxes of different size (value-equal objects) under BEV IoU
    for el, gl in [((CAR, CAR), (CAR,)), ((CAR,), (CAR, CAR))] + ([] if quick else [((CAR, CAR), (CAR, CAR))]):
        for task in ("detection", "fp_validation"):
            rcases.append(dict(n=len(el), m=len(gl), mode="iou2d", policy="default", task=task, thr=False,
                               e_labels=list(el), g_labels=list(gl), mixed_sizes=True))
    obs.append(Obligation("real_geometry", realfn, cases=rcases, extras=_lazy_extras,
                          desc="get_object_results with the real matching classes on boxes along a line",
                          witness_every=1 if quick else 2))

    def roifn(**kw):
        return roi_scene(pid, **kw)

    qc = [dict(n=n, m=m, mode=mode, policy="default", task=task, thr=thr)
          for (n, m) in ([(1, 1), (2, 1)] if quick else [(1, 1), (2, 1), (1, 2), (2, 2)])
          for mode in ("center", "iou2d") for task in ("detection2d", "fp_validation2d") for thr in (False, True)]
    qc += [dict(n=n, m=m, mode=mode, policy="default", task="detection2d", thr=thr, family="traffic_light")
           for (n, m) in [(1, 1), (2, 1)] for mode in ("center", "iou2d") for thr in (False, True)]
    obs.append(Obligation("roi_geometry", roifn, cases=qc, extras=_lazy_extras,
                          desc="get_object_results on 2-D objects with integer ROIs, real matching classes"))
    return obs


from ..lazy import lazy_extras as _lazy_extras  # noqa: E402


def meta(pid):
    return {
        "functions": [
            "evaluation.result.object_result.get_object_results", "object_result._get_score_table",
            "object_result._get_matching_module", "object_result._get_fp_object_results",
            "object_result.DynamicObjectWithPerceptionResult.__init__",
            "common.threshold.get_label_threshold", "matching.object_matching.MatchingLabelPolicy.is_matchable",
            "matching.object_matching.{CenterDistance,PlaneDistance,IOU2d,IOU3d}Matching.is_better_than",
            "matching.object_matching.CenterDistanceMatching._calculate_matching_score (real_geometry)",
            "matching.object_matching.IOU2dMatching._calculate_matching_score (real_geometry, roi_geometry)",
            "common.label.Label / common.label.is_same_label",
        ],
        "files": ["evaluation/result/object_result.py", "evaluation/matching/object_matching.py",
                  "common/threshold.py", "common/label.py", "common/object.py", "common/object2d.py"],
        "bounds": {
            "quick": "abstract table: n x m <= 2x2 estimates x ground truths, labels est {car,pedestrian,unknown} gt "
                     "{car,pedestrian,unknown,false_positive} (2x2: reduced label sets), 2 frame ids per object, 4 modes "
                     "(2x2: one distance + one IoU mode), 3 policies, detection/FP-validation (3-D and 2-D), thresholds "
                     "none or symbolic per label; real geometry: <= 2x2 boxes on a line, centre distance; ROI: <= 2x1",
            "thorough": "abstract table up to 3x3; real geometry up to 3x3 (centre distance), 2x2 (BEV IoU), 2x1 / 1x2 (plane "
                        "distance, 3-D IoU); ROI 2x2",
        },
        "outside": ["more than 3 estimates or ground truths", "score ties are covered (non-strict greedy); float rounding",
                    "real-geometry runs for plane distance / 3-D IoU (their scores are C06's subject; the table "
                    "code is mode-independent apart from the maximise flag)"],
        "stand_ins": ["numpy proxy (object arrays, nanargmin/nanargmax/where/isnan/full)", "pyquaternion -> Rot",
                      "shapely Polygon -> ConvexPolygon (real_geometry IoU)",
                      "abstract_table: `_calculate_matching_score` of the four matching classes replaced by an "
                      "unconstrained non-negative symbolic score per pair (recorded cut)",
                      "real/roi geometry: matching classes wrapped so that the score is computed on first observation"],
        "assumptions": ["scores are non-negative reals (IoU in [0,1]); thresholds non-negative (IoU thresholds in [0,1], "
                        "as the code asserts)", "floats modelled as exact reals"],
    }
