import sys, time
sys.path.insert(0, '/tmp/spike')
import warnings; warnings.filterwarnings("ignore")
import z3, symx
from symx import SBool
import logging; logging.disable(logging.CRITICAL)

class SymStr:
    """Symbolic ASCII string: concrete length, symbolic char codes."""
    def __init__(self, codes): self.codes=list(codes)
    @classmethod
    def fresh(cls, name, maxlen):
        C=symx.CTX
        n=C.var(name+"_len","int"); C.add(z3.And(n>=0,n<=maxlen))
        L=maxlen
        for k in range(maxlen):
            if C.branch(n==k): L=k; break
        cs=[]
        for i in range(L):
            c=C.var(f"{name}_{i}","int"); C.add(z3.And(c>=1,c<=127)); cs.append(c)
        return cls(cs)
    def lower(self): return SymStr([z3.If(z3.And(c>=65,c<=90), c+32, c) for c in self.codes])
    def upper(self): return SymStr([z3.If(z3.And(c>=97,c<=122), c-32, c) for c in self.codes])
    def __len__(self): return len(self.codes)
    def __eq__(self, o):
        if isinstance(o,str):
            if len(o)!=len(self.codes): return False
            return SBool(z3.And(*[c==ord(ch) for c,ch in zip(self.codes,o)])) if o else True
        if isinstance(o,SymStr):
            if len(o)!=len(self): return False
            return SBool(z3.And(*[a==b for a,b in zip(self.codes,o.codes)]))
        return NotImplemented
    def __ne__(self,o):
        r=self.__eq__(o)
        return (~r) if isinstance(r,SBool) else (not r)
    __hash__=None
    def concretize(self, model): return "".join(chr(model.eval(c,model_completion=True).as_long()) for c in self.codes)

from perception_eval.common.label import LabelConverter, AutowareLabel, TrafficLightLabel
from perception_eval.common.schema import FrameID

MAXLEN=int(sys.argv[1])
def run_label():
    C=symx.CTX
    conv = LabelConverter("detection", False, "autoware")
    name = SymStr.fresh("s", MAXLEN)
    lab = conv.convert_label(name).label
    # spec table (documented): independent copy
    SPEC = {"car":AutowareLabel.CAR,"bus":AutowareLabel.BUS,"truck":AutowareLabel.TRUCK,"bicycle":AutowareLabel.BICYCLE,"motorbike":AutowareLabel.MOTORBIKE,"pedestrian":AutowareLabel.PEDESTRIAN,"unknown":AutowareLabel.UNKNOWN,"animal":AutowareLabel.UNKNOWN,"trailer":AutowareLabel.TRUCK}
    low=name.lower()
    prop=z3.BoolVal(True)
    for k,v in SPEC.items():
        eq = low==k
        if eq is False: continue
        prop=z3.And(prop, z3.Implies(eq.e, z3.BoolVal(lab==v)))
    return prop
def run_frame():
    name = SymStr.fresh("s", MAXLEN)
    try:
        r = FrameID.from_value(name)
    except ValueError:
        r = None
    low=name.lower()
    prop=z3.BoolVal(True)
    for m in FrameID:
        eq = low==m.value.lower()
        if eq is False: continue
        prop=z3.And(prop, z3.Implies(eq.e, z3.BoolVal(r is m)))
    return prop
for fn in (run_label, run_frame):
    t=time.time()
    paths, results, ctx = symx.explore(fn, timeout_ms=20000)
    print(fn.__name__,"paths",paths,"results",[(r[0]) for r in results][:5],len(results),"checks",ctx.n_checks,"solver_s",round(ctx.t_solver,2),"unknown",ctx.n_unknown,"wall",round(time.time()-t,2))
    if results and results[0][0]=="cex": print(results[0][1])
