"""C12 - sensing counts exactly the points inside each box; every object classified once."""
from fractions import Fraction

import numpy as np
from perception_eval.common.label import AutowareLabel, Label
from perception_eval.common.object import DynamicObject
from perception_eval.common.point import crop_pointcloud
from perception_eval.common.schema import FrameID, Visibility
from perception_eval.common.shape import Shape, ShapeType
from perception_eval.evaluation.sensing.sensing_frame_config import SensingFrameConfig
from perception_eval.evaluation.sensing.sensing_frame_result import SensingFrameResult
from perception_eval.evaluation.sensing.sensing_result import DynamicObjectWithSensingResult
from perception_eval.manager.sensing_evaluation_manager import SensingEvaluationManager
from perception_eval.util.math import get_bbox_scale

from .. import build, models, symx
from ..runner import Obligation, Out
from ..symnp import symarray
from ..symx import L, assume, choose, real

CAR = AutowareLabel.CAR
ROTS = {"0": (1, 0, 0, 0), "90": (1, 0, 0, 1), "53": (2, 0, 0, 1), "-23": (5, 0, 0, -1), "127": (1, 0, 0, 2),
        "180": (0, 0, 0, 1),
        # boxes on a slope / banked (pitch, roll): the footprint is the ground projection of the rotated rectangle, the
        # vertical extent stays centre +- height / 2
        "pitched": (20, 0, 1, 4), "rolled": (20, 2, 0, -5)}
SIZE = (2.0, 4.5, 1.6)  # width, length, height
MARGIN = Fraction(1, 10**6)


def M2(q):
    M = models.q_to_matrix(tuple(Fraction(v) for v in q))
    return [[M[0][0], M[0][1]], [M[1][0], M[1][1]]]


def _box(name, c, rot, visibility=None, size=SIZE):
    return DynamicObject(0, FrameID.BASE_LINK, tuple(c), build.mkrot(ROTS[rot]), Shape(ShapeType.BOUNDING_BOX, size), None,
                         1.0, Label(CAR, "car"), pointcloud_num=10, uuid=name, visibility=visibility)


def cloud(points):
    """(N, C) array in the current mode"""
    if symx.is_symbolic():
        return symarray(points)
    return np.array(points, dtype=float)


def local(p, c, rot):
    """footprint coordinates A^-1 (p - c), A = the x/y block of the rotation (its inverse is the transpose for a yaw)"""
    A = M2(ROTS[rot])
    det = A[0][0] * A[1][1] - A[0][1] * A[1][0]
    inv = [[A[1][1] / det, -A[0][1] / det], [-A[1][0] / det, A[0][0] / det]]
    dx, dy = p[0] - c[0], p[1] - c[1]
    return (build.const(inv[0][0]) * dx + build.const(inv[0][1]) * dy, build.const(inv[1][0]) * dx + build.const(inv[1][1]) * dy)


def strictly_inside(p, c, rot, scale, size=SIZE):
    u = local(p, c, rot)
    hl, hw = Fraction(size[1]) * scale / 2, Fraction(size[0]) * scale / 2
    return L.And(abs(u[0]) < hl - MARGIN, abs(u[1]) < hw - MARGIN, p[2] > c[2] - Fraction(size[2]) / 2 + MARGIN,
                 p[2] < c[2] + Fraction(size[2]) / 2 - MARGIN)


def strictly_outside(p, c, rot, scale, size=SIZE):
    u = local(p, c, rot)
    hl, hw = Fraction(size[1]) * scale / 2, Fraction(size[0]) * scale / 2
    return L.Or(abs(u[0]) > hl + MARGIN, abs(u[1]) > hw + MARGIN, p[2] < c[2] - Fraction(size[2]) / 2 - MARGIN,
                p[2] > c[2] + Fraction(size[2]) / 2 + MARGIN)


def _rows(arr):
    return [tuple(arr[i][k] for k in range(arr.shape[1])) for i in range(len(arr))]


def _same_row(a, b):
    return L.And(*[L.close(x, y, 0) for x, y in zip(a, b)])


def crop_exact(rot, scale, npts, cols):
    """DynamicObject.crop_pointcloud / get_inside_pointcloud_num vs the box-local oracle; partition; scale monotone."""
    c = (real("cx", -50, 50), real("cy", -50, 50), real("cz", -2, 2))
    o = _box("o", c, rot)
    pts = []
    for i in range(npts):
        p = [real(f"p{i}_x", -60, 60), real(f"p{i}_y", -60, 60), real(f"p{i}_z", -5, 5)]
        if cols == 4:
            p.append(real(f"p{i}_intensity", 0, 255))
        pts.append(p)
    pc = cloud(pts)
    s = Fraction(scale)
    inside = o.crop_pointcloud(pc, bbox_scale=float(s))
    outside = o.crop_pointcloud(pc, bbox_scale=float(s), inside=False)
    n_in = o.get_inside_pointcloud_num(pc, bbox_scale=float(s))
    parts = {}
    in_rows, out_rows = _rows(inside), _rows(outside)
    # membership by position in the cloud: crop keeps order, so a two-pointer walk identifies rows
    def member(rows_sel):
        flags, j = [], 0
        for p in pts:
            if j < len(rows_sel) and bool(_same_row(rows_sel[j], p)) if not symx.is_symbolic() else (
                    j < len(rows_sel) and all(a is b or (not symx.is_sym(a) and not symx.is_sym(b) and a == b)
                                              for a, b in zip(rows_sel[j], p))):
                flags.append(True)
                j += 1
            else:
                flags.append(False)
        return flags, j == len(rows_sel)

    fin, ok_in = member(in_rows)
    fout, ok_out = member(out_rows)
    parts["selections_are_subsequences_of_the_cloud"] = ok_in and ok_out
    parts["inside_outside_partition"] = all(a != b for a, b in zip(fin, fout))
    parts["count_matches"] = n_in == len(in_rows) and o.point_exist(pc, float(s)) == (n_in > 0)
    parts["columns_kept"] = inside.shape[1] == cols if len(in_rows) else True
    for i, p in enumerate(pts):
        parts[f"p{i}_strictly_inside_is_reported"] = L.Implies(strictly_inside(p, c, rot, s), fin[i])
        parts[f"p{i}_strictly_outside_is_not_reported"] = L.Implies(strictly_outside(p, c, rot, s), not fin[i])
    # enlarging the footprint never removes an inside point
    s2 = s * Fraction(3, 2)
    inside2 = o.crop_pointcloud(pc, bbox_scale=float(s2))
    fin2, ok2 = member(_rows(inside2))
    parts["scale_monotone"] = ok2 and all((not a) or b for a, b in zip(fin, fin2))
    return Out(parts=parts, obs={"inside": fin, "outside": fout, "inside_bigger": fin2})


def prism_crop(shape, npts):
    """crop_pointcloud on polygonal prisms (non-detection areas): convex polygons with 3..5 vertices."""
    base = {"triangle": [(0, 0), (6, 0), (2, 5)], "quad": [(0, 0), (5, 1), (6, 4), (-1, 3)],
            "pentagon": [(0, 0), (4, -1), (6, 2), (3, 5), (-1, 3)], "quad_cw": [(0, 0), (-1, 3), (6, 4), (5, 1)]}[shape]
    ox, oy = real("area_dx", -20, 20), real("area_dy", -20, 20)
    zlo, zhi = -1.0, 2.0
    upper = [(ox + x, oy + y, zhi) for x, y in base]
    lower = [(ox + x, oy + y, zlo) for x, y in base]
    area = upper + lower
    pts = [[real(f"p{i}_x", -30, 30), real(f"p{i}_y", -30, 30), real(f"p{i}_z", -4, 4)] for i in range(npts)]
    pc = cloud(pts)
    inside = crop_pointcloud(pc, area, inside=True)
    outside = crop_pointcloud(pc, area, inside=False)
    parts = {"partition": len(inside) + len(outside) == npts}
    # oracle: strictly inside every edge half-plane (orientation-independent) and strictly between the z planes
    n = len(base)
    orient = sum(base[i][0] * base[(i + 1) % n][1] - base[(i + 1) % n][0] * base[i][1] for i in range(n))
    sgn = 1 if orient > 0 else -1
    in_rows = _rows(inside)
    j = 0
    for i, p in enumerate(pts):
        reported = j < len(in_rows) and all(a is b for a, b in zip(in_rows[j], p)) if symx.is_symbolic() else (
            j < len(in_rows) and all(float(a) == float(b) for a, b in zip(in_rows[j], p)))
        if reported:
            j += 1
        sides = []
        for k in range(n):
            ax, ay = base[k]
            bx, by = base[(k + 1) % n]
            cr = (bx - ax) * (p[1] - oy - ay) - (by - ay) * (p[0] - ox - ax)
            sides.append(sgn * cr)
        inz = L.And(p[2] > zlo + MARGIN, p[2] < zhi - MARGIN)
        strictly_in = L.And(*[sd > Fraction(1, 10**5) for sd in sides], inz)
        strictly_out = L.Or(*[sd < -Fraction(1, 10**5) for sd in sides], p[2] < zlo - MARGIN, p[2] > zhi + MARGIN)
        parts[f"p{i}_inside_reported"] = L.Implies(strictly_in, reported)
        parts[f"p{i}_outside_not_reported"] = L.Implies(strictly_out, not reported)
    return Out(parts=parts, obs={"n_in": len(inside), "n_out": len(outside)})


class _StubManager:
    def __init__(self, s0, s100):
        class C:
            pass
        self.evaluator_config = C()
        self.evaluator_config.metrics_params = {"box_scale_0m": s0, "box_scale_100m": s100, "min_points_threshold": 1}


def scale_factor():
    """distance-dependent footprint scale: linear through (0 m, scale_0m) and (100 m, scale_100m) at *every* distance
    (also beyond 100 m), identically in the frame config and in util.math (the manager's crop uses the latter)."""
    s0, s100 = real("scale_0m", 0, 3, lo_strict=True), real("scale_100m", 0, 3, lo_strict=True)
    d = real("distance", 0, 500)
    cfg = SensingFrameConfig(None, s0, s100, 1)
    want = s0 + (s100 - s0) * d / 100
    a, b = cfg.get_scale_factor(d), get_bbox_scale(d, s0, s100)
    return Out(parts={"frame_config_scale_is_linear": L.close(a, want, 1e-9), "util_scale_is_linear": L.close(b, want, 1e-9),
                      "both_agree": L.close(a, b, 1e-9)}, obs={"a": a, "b": b})


def frame_classification(rot, min_points, scales, two_objects, sym_points=1, shift=0.0, no_objects=False):
    """SensingFrameResult.evaluate_frame + SensingEvaluationManager.crop_pointcloud.
    `shift`: the whole scene moved along x (objects farther than 100 m: extrapolated scale factors).
    `no_objects`: a frame without any annotated object (every point of the area is then a failed non-detection point)."""
    s0, s100 = scales
    vis = choose("visibility", [None, Visibility.FULL, Visibility.MOST, Visibility.PARTIAL, Visibility.NONE,
                                Visibility.UNAVAILABLE])
    centers = [(8.0 + shift, 1.0, 0.0), (16.0 + shift, -6.0, 0.0)][: 0 if no_objects else (2 if two_objects else 1)]
    objs = [_box(f"g{k}", c, rot if k == 0 else "0", visibility=vis if k == 0 else Visibility.FULL)
            for k, c in enumerate(centers)]
    # symbolic points, plus concrete ones: one well inside the first box, one in the area outside every box
    sh = Fraction(shift)
    pts = [[real(f"p{i}_x", 0, 25) + build.const(sh), real(f"p{i}_y", -12, 8), real(f"p{i}_z", -2, 2)] for i in range(sym_points)]
    pts += [[build.const(Fraction(81, 10) + sh), build.const(Fraction(11, 10)), build.const(Fraction(1, 10))],
            [build.const(Fraction(4) + sh), build.const(Fraction(-8)), build.const(Fraction(0))]]
    pc = cloud(pts)
    # non-detection area: a prism covering x in [2, 22], y in [-10, 6], z in [-1.5, 1.5]
    base = [(2.0 + shift, -10.0), (22.0 + shift, -10.0), (22.0 + shift, 6.0), (2.0 + shift, 6.0)]
    area = [(x, y, 1.5) for x, y in base] + [(x, y, -1.5) for x, y in base]
    cfg = SensingFrameConfig(None, s0, s100, min_points)
    mgr = _StubManager(s0, s100)
    non_det = SensingEvaluationManager.crop_pointcloud(mgr, objs, pc, [area])
    res = SensingFrameResult(cfg, 0, "0")
    res.evaluate_frame(objs, pc, non_det)
    parts = {}
    scale_of = {}
    for k, (o, c) in enumerate(zip(objs, centers)):
        d = float(np.linalg.norm(np.array(c, dtype=float)))
        sc = Fraction(Fraction(s100) - Fraction(s0)) * Fraction(1, 100) * Fraction(d) + Fraction(s0)
        scale_of[k] = sc
        parts[f"g{k}_scale_factor"] = L.close(cfg.get_scale_factor(o.get_distance()), float(sc), 1e-9) and \
            L.close(get_bbox_scale(o.get_distance(), s0, s100), float(sc), 1e-9)
        where = [any(r.ground_truth_object is o for r in lst) for lst in (res.detection_success_results,
                                                                         res.detection_fail_results,
                                                                         res.detection_warning_results)]
        parts[f"g{k}_classified_exactly_once"] = sum(where) == 1 and sum(
            sum(1 for r in lst if r.ground_truth_object is o) for lst in (res.detection_success_results,
                                                                           res.detection_fail_results,
                                                                           res.detection_warning_results)) == 1
        r_k = "0" if k else rot
        n_in_lo = L.Sum([L.If(strictly_inside(p, c, r_k, sc), 1, 0) for p in pts])
        n_out = L.Sum([L.If(strictly_outside(p, c, r_k, sc), 1, 0) for p in pts])
        no_boundary = L.close(n_in_lo + n_out, len(pts), 0)  # no point within the margin of the box surface
        occluded = (vis == Visibility.NONE) if k == 0 else False
        if occluded:
            parts[f"g{k}_warning_when_fully_occluded"] = where[2]
        else:
            parts[f"g{k}_detected_iff_enough_points"] = L.Implies(no_boundary, L.Iff(where[0], n_in_lo >= min_points))
            parts[f"g{k}_not_warning"] = not where[2]
    # the frame result alone must also remove the points of every box (the cloud handed in is only area-cropped here)
    res_b = SensingFrameResult(cfg, 0, "0")
    res_b.evaluate_frame(objs, pc, [crop_pointcloud(pc, area)])
    failed_b = [tuple(r) for arr in res_b.pointcloud_failed_non_detection for r in _rows(arr)]
    # failed non-detection points = in the prism and outside every scaled box (away from the surfaces)
    failed = [tuple(r) for arr in res.pointcloud_failed_non_detection for r in _rows(arr)]
    for i, p in enumerate(pts):
        in_prism = L.And(p[0] > 2 + sh + MARGIN, p[0] < 22 + sh - MARGIN, p[1] > -10 + MARGIN, p[1] < 6 - MARGIN,
                         p[2] > -1.5 + MARGIN, p[2] < 1.5 - MARGIN)
        out_prism = L.Or(p[0] < 2 + sh - MARGIN, p[0] > 22 + sh + MARGIN, p[1] < -10 - MARGIN, p[1] > 6 + MARGIN,
                         p[2] < -1.5 - MARGIN, p[2] > 1.5 + MARGIN)
        out_all = L.And(*[strictly_outside(p, c, ("0" if k else rot), scale_of[k]) for k, c in enumerate(centers)])
        in_some = L.Or(*[strictly_inside(p, c, ("0" if k else rot), scale_of[k]) for k, c in enumerate(centers)])
        listed = any(all(a is b for a, b in zip(r, p)) for r in failed) if symx.is_symbolic() else any(
            all(float(a) == float(b) for a, b in zip(r, p)) for r in failed)
        parts[f"p{i}_failed_when_in_area_and_outside_boxes"] = L.Implies(L.And(in_prism, out_all), listed)
        parts[f"p{i}_not_failed_when_in_a_box_or_outside_area"] = L.Implies(L.Or(out_prism, in_some), not listed)
        listed_b = any(all(a is b for a, b in zip(r, p)) for r in failed_b) if symx.is_symbolic() else any(
            all(float(a) == float(b) for a, b in zip(r, p)) for r in failed_b)
        parts[f"p{i}_frame_result_alone_failed_iff_outside_boxes"] = L.And(
            L.Implies(L.And(in_prism, out_all), listed_b), L.Implies(L.Or(out_prism, in_some), not listed_b))
    return Out(parts=parts, obs={"success": len(res.detection_success_results), "fail": len(res.detection_fail_results),
                                 "warning": len(res.detection_warning_results), "failed_points": len(failed)})


def obligations(pid, tier):
    quick = tier == "quick"
    rots = ["0", "53", "-23"] if quick else list(ROTS)
    crop = [dict(rot=r, scale=s, npts=1, cols=c) for r in rots for s in (("1", "1/2", "5/4") if quick else
                                                                        ("1", "1/2", "5/4", "2"))
            for c in ((3,) if (quick and s != "1") else (3, 4))]
    crop += [dict(rot=r, scale=sc, npts=1, cols=3) for r in ("pitched", "rolled") for sc in ("1", "5/4")]
    if not quick:
        crop += [dict(rot="53", scale="1", npts=2, cols=3)]  # two symbolic points: one rotation (run time)
    prism = [dict(shape=s, npts=1) for s in ("triangle", "quad", "pentagon", "quad_cw")]
    if not quick:
        prism += [dict(shape="pentagon", npts=2)]
    if quick:
        fr = [dict(rot="53", min_points=m, scales=(1.0, 1.5), two_objects=False, sym_points=1) for m in (0, 1, 2)]
        fr += [dict(rot="53", min_points=1, scales=(1.0, 1.0), two_objects=False, sym_points=1),
               dict(rot="-23", min_points=1, scales=(1.0, 1.5), two_objects=True, sym_points=1)]
    else:
        fr = [dict(rot=r, min_points=m, scales=sc, two_objects=t, sym_points=1) for r in ("0", "53", "-23")
              for m in (0, 1, 2, 3) for sc in ((1.0, 1.0), (1.0, 1.5)) for t in (False, True)
              if not t or (r == "-23" and sc == (1.0, 1.5))]  # two-object scenes: one rotation (run time)
        # (two symbolic points in a whole-frame scene do not finish within 40 minutes: outside the thorough bound)
    fr += [dict(rot="53", min_points=1, scales=(1.0, 1.6), two_objects=False, sym_points=1, shift=150.0)]
    fr += [dict(rot="0", min_points=1, scales=(1.0, 1.5), two_objects=False, sym_points=1, no_objects=True)]
    if not quick:
        fr += [dict(rot="-23", min_points=2, scales=(1.5, 1.0), two_objects=True, sym_points=1, shift=150.0)]
    return [
        Obligation("scale_factor", scale_factor, cases=[{}],
                   desc="distance-dependent scale: linear at every distance (beyond 100 m too), frame config = util.math"),
        Obligation("crop_exact", crop_exact, cases=crop,
                   desc="points reported inside = points inside the scaled footprint and between bottom and top; "
                        "partition; count; scale monotone"),
        Obligation("prism_crop", prism_crop, cases=prism, desc="crop_pointcloud on polygonal prisms of 3..5 vertices"),
        Obligation("frame_classification", frame_classification, cases=fr,
                   desc="every object exactly one of detected / not detected / warning; failed non-detection points"),
    ]


def meta(pid):
    return {
        "functions": ["common.point.crop_pointcloud", "common.object.DynamicObject.get_corners/crop_pointcloud/"
                      "get_inside_pointcloud_num/point_exist/get_distance", "evaluation.sensing.sensing_result."
                      "DynamicObjectWithSensingResult", "evaluation.sensing.sensing_frame_result.SensingFrameResult.evaluate_frame",
                      "evaluation.sensing.sensing_frame_config.SensingFrameConfig.get_scale_factor", "util.math.get_bbox_scale",
                      "manager.sensing_evaluation_manager.SensingEvaluationManager.crop_pointcloud (unbound, stub self)"],
        "files": ["common/point.py", "common/object.py", "evaluation/sensing/sensing_result.py",
                  "evaluation/sensing/sensing_frame_result.py", "evaluation/sensing/sensing_frame_config.py",
                  "manager/sensing_evaluation_manager.py", "util/math.py"],
        "bounds": {"quick": "box: symbolic centre, exact yaw in {0, 53.1, -22.6 deg}, scale in {1/2, 1, 5/4} (+3/2 x for "
                            "monotonicity), 1 symbolic point, 3 or 4 columns; prisms: triangle, 2 "
                            "quads (both orientations), pentagon with symbolic offset; frame: 0-2 objects, 1 symbolic + 2 concrete points, "
                            "min points 0..2, constant and distance-dependent scale, every visibility level, one scene beyond "
                            "100 m; scale factor itself: symbolic distance in [0, 500] m and symbolic end-point scales",
                   "thorough": "8 orientations (two tilted), 4 scales, 2 symbolic points for one rotation, min points 0..3"},
        "outside": ["points within 1e-6 of a box / prism surface (the statement excludes boundary points)",
                    "symbolic scale factors (concrete set only: a symbolic scale makes the edge interpolation non-linear)",
                    "large clouds (the uint8 winding counter is executed by real numpy on every path, wrap-around "
                    "included)", "roll/pitch beyond the two tilted orientations of crop_exact"],
        "stand_ins": ["numpy proxy; point clouds are object arrays whose comparisons fork into concrete masks",
                      "pyquaternion -> Rot (exact)", "shapely -> ConvexPolygon"],
        "assumptions": ["positive box size", "non-detection prisms are convex"],
    }
