"""symx - replay-based symbolic executor for real Python code (operator overloading + z3).

The functions under check are imported from /repo and run unmodified; what is symbolic are the
values that flow through them (SReal / SInt / SBool / SymStr).  Every `bool()` of a symbolic
boolean is a solver-decided fork; exploration is exhaustive depth-first by re-running the function
from the start with a recorded decision prefix.

The same harness code also runs in *concrete* mode (plain floats / ints / str, real third-party
libraries) which is used for replaying counterexamples and for validating explored paths against
the unshimmed implementation.
"""
from __future__ import annotations

import math
import numbers
import time
from fractions import Fraction

import z3


class Infeasible(BaseException):
    """Raised when the current path condition is unsatisfiable (path abandoned)."""


class AssumptionFailed(BaseException):
    """Concrete mode: an `assume` does not hold for the replayed inputs."""


class PathLimit(BaseException):
    pass


class Cut(BaseException):
    """Probe mode: the decision depth used for splitting the tree across processes was reached."""


# ----------------------------------------------------------------------------------------------
# contexts


class Ctx:
    """Symbolic context: one z3 solver, decision prefix, path condition."""

    symbolic = True

    def __init__(self, timeout_ms=10000):
        self.solver = z3.Solver()
        self.solver.set("timeout", timeout_ms)
        self.timeout_ms = timeout_ms
        self._cur_timeout = timeout_ms
        self.feas_timeout_ms = min(timeout_ms, 3000)  # branch feasibility: unknown is treated as feasible
        self.prefix = []  # list of [decision(bool), has_alt(bool)]
        self.pos = 0
        self.n_checks = 0
        self.t_solver = 0.0
        self.n_unknown_feas = 0
        self.n_decisions = 0
        self.fresh = 0
        self.inputs = {}  # name -> (kind, z3 var / list)
        self.choices = {}  # name -> (index, repr)
        self.model = None
        self.nontrivial = False
        self.notes = []
        self.cut_depth = None
        self.scratch = {}

    # -- solver plumbing
    def check(self, *assumptions, timeout_ms=None):
        t = time.time()
        ms = timeout_ms or self.timeout_ms
        if ms != self._cur_timeout:
            self.solver.set("timeout", ms)
            self._cur_timeout = ms
        r = self.solver.check(*assumptions)
        self.t_solver += time.time() - t
        self.n_checks += 1
        return r

    def begin(self):
        self.solver.push()
        self.pos = 0
        self.fresh = 0
        self.inputs = {}
        self.choices = {}
        self.model = None
        self.nontrivial = False
        self.notes = []
        self.scratch = {}  # per-path memo tables of the stand-ins

    def end(self):
        self.solver.pop()
        self.model = None

    def add(self, c):
        if isinstance(c, bool):
            if not c:
                raise Infeasible()
            return
        self.solver.add(c)
        if self.model is not None:
            try:
                if not z3.is_true(self.model.eval(c, model_completion=True)):
                    self.model = None
            except z3.Z3Exception:
                self.model = None

    def var(self, name, sort="real"):
        self.fresh += 1
        n = f"{name}#{self.fresh}"
        return z3.Real(n) if sort == "real" else (z3.Int(n) if sort == "int" else z3.Bool(n))

    # -- forking
    def branch(self, cond, timeout_ms=None, unknown_true_is_infeasible=False):
        feas_ms = timeout_ms or self.feas_timeout_ms
        cond = z3.simplify(cond, som=True)
        if z3.is_true(cond):
            return True
        if z3.is_false(cond):
            return False
        self.nontrivial = True
        if self.pos < len(self.prefix):
            d = self.prefix[self.pos][0]
            self.pos += 1
            self.solver.add(cond if d else z3.Not(cond))
            return d
        if self.cut_depth is not None and sum(1 for e in self.prefix if len(e) > 2 and e[2]) >= self.cut_depth:
            raise Cut()  # depth counted in two-sided decisions only
        self.n_decisions += 1
        ncond = z3.Not(cond)
        can_t = can_f = None
        if self.model is not None:
            try:
                v = self.model.eval(cond, model_completion=True)
                if z3.is_true(v):
                    can_t = True
                elif z3.is_false(v):
                    can_f = True
            except z3.Z3Exception:
                pass
        m_t = m_f = None
        if can_t is None:
            r = self.check(cond, timeout_ms=feas_ms)
            if r == z3.unknown:
                self.n_unknown_feas += 1
            can_t = r != z3.unsat and not (r == z3.unknown and unknown_true_is_infeasible)
            if r == z3.sat:
                m_t = self.solver.model()
        else:
            m_t = self.model
        if can_f is None:
            if can_t is False:
                can_f = True  # invariant: the current path is feasible
                m_f = self.model
            else:
                r = self.check(ncond, timeout_ms=feas_ms)
                if r == z3.unknown:
                    self.n_unknown_feas += 1
                can_f = r != z3.unsat
                if r == z3.sat:
                    m_f = self.solver.model()
        else:
            m_f = self.model
        if not can_t and not can_f:
            raise Infeasible()
        if can_t:
            self.prefix.append([True, bool(can_f), bool(can_f)])
            self.pos += 1
            self.solver.add(cond)
            self.model = m_t
            return True
        self.prefix.append([False, False, False])
        self.pos += 1
        self.solver.add(ncond)
        self.model = m_f
        return False

    def backtrack(self):
        while self.prefix:
            d, alt = self.prefix[-1][0], self.prefix[-1][1]
            if alt:
                self.prefix[-1] = [not d, False, True]
                return True
            self.prefix.pop()
        return False


class ConcreteCtx:
    """Concrete context: inputs come from a dict (a solver model written out)."""

    symbolic = False

    def __init__(self, values):
        self.values = values
        self.notes = []
        self.choices = {}
        self.scratch = {}


CTX = None


def set_ctx(c):
    global CTX
    CTX = c
    return c


def is_symbolic():
    return CTX is not None and CTX.symbolic


# ----------------------------------------------------------------------------------------------
# symbolic values


def _mk(name, fn):
    fn._name = name
    return fn


_OPS = {
    "lt": _mk("lt", lambda a, b: a < b),
    "le": _mk("le", lambda a, b: a <= b),
    "gt": _mk("gt", lambda a, b: a > b),
    "ge": _mk("ge", lambda a, b: a >= b),
    "eq": _mk("eq", lambda a, b: a == b),
    "ne": _mk("ne", lambda a, b: a != b),
}


def frac_to_z3(f):
    return z3.RealVal(f"{f.numerator}/{f.denominator}")


def _lift(x):
    """python / numpy / symbolic scalar -> z3 arithmetic term (Real unless SInt)."""
    if isinstance(x, SReal):
        return x.e
    if isinstance(x, SBool):
        return z3.If(x.e, z3.RealVal(1), z3.RealVal(0))
    if isinstance(x, z3.ArithRef):
        return x
    if isinstance(x, bool):
        return z3.RealVal(1 if x else 0)
    if isinstance(x, int):
        return z3.RealVal(x)
    if isinstance(x, float):
        if math.isnan(x) or math.isinf(x):
            raise ValueError("nan/inf lifted into a symbolic term")
        return frac_to_z3(Fraction(x))
    if isinstance(x, Fraction):
        return frac_to_z3(x)
    if hasattr(x, "item") and getattr(x, "ndim", None) == 0:
        return _lift(x.item())
    if hasattr(x, "dtype") and hasattr(x, "item") and getattr(x, "shape", None) == ():
        return _lift(x.item())
    return NotImplemented


def lift(x):
    r = _lift(x)
    if r is NotImplemented:
        raise TypeError(f"cannot lift {type(x)} {x!r}")
    return r


def _real(e):
    return z3.ToReal(e) if z3.is_int(e) else e


def _div(a, b):
    a, b = _real(a), _real(b)
    b = z3.simplify(b, som=True)
    return z3.simplify(a / b, som=True) if z3.is_rational_value(b) else a / b


class SBool:
    def __init__(self, e):
        self.e = e

    def __bool__(self):
        return CTX.branch(self.e)

    @staticmethod
    def _e(o):
        if isinstance(o, SBool):
            return o.e
        if isinstance(o, z3.BoolRef):
            return o
        return z3.BoolVal(bool(o))

    def __and__(self, o):
        return SBool(z3.And(self.e, SBool._e(o)))

    __rand__ = __and__

    def __or__(self, o):
        return SBool(z3.Or(self.e, SBool._e(o)))

    __ror__ = __or__

    def __xor__(self, o):
        return SBool(z3.Xor(self.e, SBool._e(o)))

    __rxor__ = __xor__

    def __invert__(self):
        return SBool(z3.Not(self.e))

    def __mul__(self, o):
        return self & o if isinstance(o, (SBool, bool)) else SReal(z3.If(self.e, z3.RealVal(1), z3.RealVal(0))) * o

    __rmul__ = __mul__

    def __add__(self, o):
        return SReal(z3.If(self.e, z3.RealVal(1), z3.RealVal(0))) + o

    __radd__ = __add__

    def __eq__(self, o):
        return SBool(self.e == SBool._e(o))

    def __ne__(self, o):
        return SBool(self.e != SBool._e(o))

    __hash__ = None

    def __deepcopy__(self, memo):
        return self

    def __repr__(self):
        return f"SBool({self.e})"


class SReal:
    is_int = False

    def __init__(self, e):
        self.e = e

    def _wrap(self, e, o=None):
        return SReal(e)

    def _bin(self, o, f):
        if isinstance(o, float) and o != o:  # IEEE: any finite value (+,-,*) nan is nan
            return o
        oe = _lift(o)
        if oe is NotImplemented:
            return NotImplemented
        return SReal(f(_real(self.e), _real(oe)))

    def __add__(self, o):
        return self._bin(o, lambda a, b: a + b)

    __radd__ = __add__

    def __sub__(self, o):
        return self._bin(o, lambda a, b: a - b)

    def __rsub__(self, o):
        return self._bin(o, lambda a, b: b - a)

    def __mul__(self, o):
        return self._bin(o, lambda a, b: a * b)

    __rmul__ = __mul__

    def __truediv__(self, o):
        oe = _lift(o)
        if oe is NotImplemented:
            return NotImplemented
        _check_nonzero(oe)
        return SReal(_div(self.e, oe))

    def __rtruediv__(self, o):
        oe = _lift(o)
        if oe is NotImplemented:
            return NotImplemented
        _check_nonzero(self.e)
        return SReal(_div(oe, self.e))

    def __floordiv__(self, o):
        oe = _lift(o)
        if oe is NotImplemented:
            return NotImplemented
        _check_nonzero(oe)
        return SReal(z3.ToReal(z3.ToInt(_div(self.e, oe))))

    def __rfloordiv__(self, o):
        oe = _lift(o)
        if oe is NotImplemented:
            return NotImplemented
        _check_nonzero(self.e)
        return SReal(z3.ToReal(z3.ToInt(_div(oe, self.e))))

    def __neg__(self):
        return type(self)(-self.e) if type(self) in (SReal, SInt) else SReal(-self.e)

    def __pos__(self):
        return self

    def __abs__(self):
        e = self.e
        r = z3.If(e >= 0, e, -e)
        return SInt(r) if self.is_int else SReal(r)

    def __pow__(self, k):
        if isinstance(k, (int, float)) and float(k).is_integer() and k >= 0:
            r = None
            for _ in range(int(k)):
                r = self.e if r is None else r * self.e
            return SReal(_real(r) if r is not None else z3.RealVal(1))
        if k == 0.5:
            return self.sqrt()
        return NotImplemented

    def sqrt(self):
        return SqrtReal(_real(self.e))

    def _cmp(self, o, f):
        special = _cmp_nonfinite(o, getattr(f, "_name", None))
        if special is not None:
            return special
        oe = _lift(o)
        if oe is NotImplemented:
            return NotImplemented
        a, b = self.e, oe
        if z3.is_int(a) != z3.is_int(b):
            a, b = _real(a), _real(b)
        return SBool(f(a, b))

    def __lt__(self, o):
        return self._cmp(o, _OPS["lt"])

    def __le__(self, o):
        return self._cmp(o, _OPS["le"])

    def __gt__(self, o):
        return self._cmp(o, _OPS["gt"])

    def __ge__(self, o):
        return self._cmp(o, _OPS["ge"])

    def __eq__(self, o):
        r = self._cmp(o, _OPS["eq"])
        return False if r is NotImplemented else r

    def __ne__(self, o):
        r = self._cmp(o, _OPS["ne"])
        return True if r is NotImplemented else r

    __hash__ = None

    def __round__(self, n=None):
        # model: rounding to n decimals is the identity (DESIGN 3.4); decisions are assumed
        # not to lie within 1e-n of their boundary.
        return self

    def __bool__(self):
        # Python truthiness of a number: x != 0 (a solver-decided fork, like any other comparison)
        return CTX.branch(_real(self.e) != 0)

    def __float__(self):
        raise TypeError("float() of a symbolic real (module-level float stand-in missing)")

    def item(self):
        return self

    def conjugate(self):
        return self

    def __deepcopy__(self, memo):
        return self

    def __copy__(self):
        return self

    def __repr__(self):
        return f"{type(self).__name__}({z3.simplify(self.e)})"


def _cmp_nonfinite(o, name):
    """comparison of a (finite) symbolic real with inf / nan"""
    if hasattr(o, "item") and getattr(o, "ndim", None) == 0:
        o = o.item()
    if not isinstance(o, float) or not (math.isinf(o) or math.isnan(o)):
        return None
    if math.isnan(o):
        return name == "ne"
    pos = o > 0
    return {"lt": pos, "le": pos, "gt": not pos, "ge": not pos, "eq": False, "ne": True}[name]


def _check_nonzero(den):
    den = z3.simplify(den, som=True)
    if z3.is_int_value(den):
        if den.as_long() == 0:
            raise ZeroDivisionError("division by zero")
        return
    if z3.is_rational_value(den):
        if den.as_fraction() == 0:
            raise ZeroDivisionError("division by zero")
        return
    # decided with the full timeout; an undecided query must not send the run down a spurious exception path
    if CTX.branch(den == 0, timeout_ms=CTX.timeout_ms, unknown_true_is_infeasible=True):
        raise ZeroDivisionError("division by (symbolic) zero")


class SInt(SReal):
    is_int = True

    def __hash__(self):
        # a bounded integer input used as a dict / set key: solver-checked case split over its range, so the
        # container sees a concrete hash on every path (equal keys then compare equal under the path condition)
        rng = getattr(self, "_range", None)
        if rng is None or rng[1] - rng[0] > 64:
            raise TypeError("unhashable type: 'SInt'")
        for v in range(rng[0], rng[1]):
            if bool(self == v):
                return hash(v)
        return hash(rng[1])

    def _bin(self, o, f):
        if isinstance(o, SInt) or (isinstance(o, int) and not isinstance(o, bool)):
            oe = o.e if isinstance(o, SInt) else z3.IntVal(o)
            return SInt(f(self.e, oe))
        return SReal._bin(self, o, f)

    def __floordiv__(self, o):
        if isinstance(o, SInt) or (isinstance(o, int) and not isinstance(o, bool)):
            oe = o.e if isinstance(o, SInt) else z3.IntVal(o)
            _check_nonzero(oe)
            # python floor division; z3 int div is floor for positive divisors
            if isinstance(o, int) and o > 0:
                return SInt(self.e / oe)
            return SInt(z3.ToInt(z3.ToReal(self.e) / z3.ToReal(oe)))
        return SReal.__floordiv__(self, o)

    def __mod__(self, o):
        if isinstance(o, int) and o > 0:
            return SInt(self.e % o)
        return NotImplemented

    def __truediv__(self, o):
        return SReal(z3.ToReal(self.e)).__truediv__(o)

    def __rtruediv__(self, o):
        return SReal(z3.ToReal(self.e)).__rtruediv__(o)

    def __neg__(self):
        return SInt(-self.e)

    def __int__(self):
        raise TypeError("int() of a symbolic integer")

    def __index__(self):
        raise TypeError("index of a symbolic integer")


class SqrtReal(SReal):
    """sqrt(radicand); comparisons use monotonicity, arithmetic introduces r>=0, r*r==radicand lazily."""

    def __init__(self, rad):
        self.rad = rad
        self._e = None

    @property
    def e(self):
        if self._e is None:
            rad = z3.simplify(self.rad, som=True)
            if z3.is_rational_value(rad):
                fr = rad.as_fraction()
                n, d = math.isqrt(fr.numerator), math.isqrt(fr.denominator)
                if fr >= 0 and n * n == fr.numerator and d * d == fr.denominator:
                    self._e = frac_to_z3(Fraction(n, d))
                    return self._e
            r = CTX.var("sqrt")
            CTX.add(z3.And(r >= 0, r * r == self.rad))
            self._e = r
        return self._e

    def __pow__(self, k):
        if k == 2:
            return SReal(self.rad)
        return SReal.__pow__(self, k)

    def __abs__(self):
        return self

    def _cmp(self, o, f):
        name = getattr(f, "_name", None)
        special = _cmp_nonfinite(o, name)
        if special is not None:
            return special
        if isinstance(o, SqrtReal):
            return SBool(f(self.rad, o.rad))
        oe = _lift(o)
        if oe is NotImplemented:
            return NotImplemented
        return SBool(_sqrt_cmp(self.rad, _real(oe), name))


def _sqrt_cmp(a, t, name):
    sq = t * t
    if name == "lt":
        return z3.And(t > 0, a < sq)
    if name == "le":
        return z3.And(t >= 0, a <= sq)
    if name == "gt":
        return z3.Or(t < 0, a > sq)
    if name == "ge":
        return z3.Or(t <= 0, a >= sq)
    if name == "eq":
        return z3.And(t >= 0, a == sq)
    if name == "ne":
        return z3.Or(t < 0, a != sq)
    raise ValueError(name)


numbers.Real.register(SReal)
numbers.Integral.register(SInt)


class LazyReal(SReal):
    """SReal whose z3 term is produced (possibly forking) on first observation."""

    def __init__(self, thunk):
        self._thunk = thunk
        self._e = None

    @property
    def e(self):
        if self._e is None:
            self._e = _real(lift(self._thunk()))
        return self._e


def is_sym(x):
    return isinstance(x, (SReal, SBool))


# ----------------------------------------------------------------------------------------------
# input providers (both modes)


def _register(name, kind, var):
    if name in CTX.inputs:
        raise RuntimeError(f"duplicate input name {name}")
    CTX.inputs[name] = (kind, var)


def real(name, lo=None, hi=None, lo_strict=False, hi_strict=False):
    """A fresh real input, optionally bounded."""
    if not CTX.symbolic:
        return float(Fraction(CTX.values[name]))
    v = z3.Real(name)
    _register(name, "real", v)
    if lo is not None:
        CTX.add(v > lift(lo) if lo_strict else v >= lift(lo))
    if hi is not None:
        CTX.add(v < lift(hi) if hi_strict else v <= lift(hi))
    return SReal(v)


def integer(name, lo=None, hi=None):
    if not CTX.symbolic:
        return int(Fraction(CTX.values[name]))
    v = z3.Int(name)
    _register(name, "int", v)
    if lo is not None:
        CTX.add(v >= lo)
    if hi is not None:
        CTX.add(v <= hi)
    out = SInt(v)
    if lo is not None and hi is not None:
        out._range = (int(lo), int(hi))
    return out


def choose(name, options):
    """n-way solver-checked fork over a finite list; returns one option."""
    options = list(options)
    pre = getattr(CTX, "presets", None)
    if pre and name in pre:  # the case fixes this choice (work splitting across processes)
        CTX.choices[name] = pre[name]
        return options[pre[name]]
    if not CTX.symbolic:
        i = int(Fraction(CTX.values.get(name, 0)))
        CTX.choices[name] = i
        return options[i]
    if len(options) == 1:
        CTX.choices[name] = 0
        return options[0]
    v = z3.Int(name)
    _register(name, "choice", v)
    CTX.add(z3.And(v >= 0, v < len(options)))
    nt = CTX.nontrivial
    idx = len(options) - 1
    for i in range(len(options) - 1):
        if CTX.branch(v == i):
            idx = i
            break
    CTX.nontrivial = nt  # finite choices do not make a path "non-trivial"
    CTX.choices[name] = idx
    return options[idx]


def flag(name):
    return choose(name, [False, True])


def assume(cond):
    """Constrain the inputs (placed before the code it constrains)."""
    if not CTX.symbolic:
        if isinstance(cond, (SBool, SReal)):
            raise TypeError("symbolic value in concrete mode")
        if not bool(cond):
            raise AssumptionFailed()
        return
    if isinstance(cond, SBool):
        c = z3.simplify(cond.e, som=True)
        if z3.is_false(c):
            raise Infeasible()
        if z3.is_true(c):
            return
        CTX.add(c)
        # the path must stay feasible
        if CTX.pos >= len(CTX.prefix):
            if CTX.model is None:
                r = CTX.check()
                if r == z3.unsat:
                    raise Infeasible()
                if r == z3.sat:
                    CTX.model = CTX.solver.model()
    elif isinstance(cond, z3.BoolRef):
        assume(SBool(cond))
    elif not cond:
        raise Infeasible()


def note(x):
    CTX.notes.append(x)


# ----------------------------------------------------------------------------------------------
# logic helpers usable on symbolic and concrete values alike


class L:
    @staticmethod
    def _sym(*xs):
        return any(isinstance(x, (SBool, SReal, z3.ExprRef)) for x in xs)

    @staticmethod
    def b(x):
        """to z3 Bool"""
        if isinstance(x, SBool):
            return x.e
        if isinstance(x, z3.BoolRef):
            return x
        return z3.BoolVal(bool(x))

    @staticmethod
    def And(*xs):
        xs = _flat(xs)
        if not L._sym(*xs):
            return all(bool(x) for x in xs)
        return SBool(z3.And(*[L.b(x) for x in xs])) if xs else True

    @staticmethod
    def Or(*xs):
        xs = _flat(xs)
        if not L._sym(*xs):
            return any(bool(x) for x in xs)
        return SBool(z3.Or(*[L.b(x) for x in xs])) if xs else False

    @staticmethod
    def Not(x):
        if not L._sym(x):
            return not bool(x)
        return SBool(z3.Not(L.b(x)))

    @staticmethod
    def Implies(a, b):
        if not L._sym(a, b):
            return (not bool(a)) or bool(b)
        return SBool(z3.Implies(L.b(a), L.b(b)))

    @staticmethod
    def Iff(a, b):
        if not L._sym(a, b):
            return bool(a) == bool(b)
        return SBool(L.b(a) == L.b(b))

    @staticmethod
    def If(c, a, b):
        if not isinstance(c, (SBool, z3.BoolRef)):
            return a if bool(c) else b
        if isinstance(a, (SBool, bool)) and isinstance(b, (SBool, bool)):
            return SBool(z3.If(L.b(c), L.b(a), L.b(b)))
        ae, be = lift(a), lift(b)
        if z3.is_int(ae) != z3.is_int(be):
            ae, be = _real(ae), _real(be)
        r = z3.If(L.b(c), ae, be)
        return SInt(r) if z3.is_int(r) else SReal(r)

    @staticmethod
    def Max(*xs):
        xs = _flat(xs)
        m = xs[0]
        for x in xs[1:]:
            m = L.If(x > m, x, m)
        return m

    @staticmethod
    def Min(*xs):
        xs = _flat(xs)
        m = xs[0]
        for x in xs[1:]:
            m = L.If(x < m, x, m)
        return m

    @staticmethod
    def Abs(x):
        return abs(x)

    @staticmethod
    def Sum(xs):
        s = 0
        for x in xs:
            s = s + (L.If(x, 1, 0) if isinstance(x, (SBool, bool)) else x)
        return s

    @staticmethod
    def Count(xs):
        return L.Sum([L.If(x, 1, 0) for x in xs])

    @staticmethod
    def close(a, b, eps=1e-9):
        """|a-b| <= eps ; inf == inf"""
        if isinstance(a, float) and math.isinf(a) or isinstance(b, float) and math.isinf(b):
            return (not is_sym(a)) and (not is_sym(b)) and a == b
        d = a - b
        return L.And(d <= eps, d >= -eps)

    @staticmethod
    def sqrt(x):
        if isinstance(x, SReal):
            return x.sqrt()
        return math.sqrt(x)


def _flat(xs):
    out = []
    for x in xs:
        if isinstance(x, (list, tuple)):
            out.extend(_flat(x))
        else:
            out.append(x)
    return out


# ----------------------------------------------------------------------------------------------
# model -> concrete inputs


def model_inputs(ctx, model):
    out = {}
    for name, (kind, var) in ctx.inputs.items():
        if kind == "str":
            n, codes = var
            out[name] = "".join(chr(model.eval(c, model_completion=True).as_long()) for c in codes)
            continue
        v = model.eval(var, model_completion=True)
        if z3.is_int_value(v):
            out[name] = str(v.as_long())
        elif z3.is_rational_value(v):
            fr = v.as_fraction()
            out[name] = f"{fr.numerator}/{fr.denominator}"
        elif z3.is_algebraic_value(v):
            fr = v.approx(30).as_fraction()
            out[name] = f"{fr.numerator}/{fr.denominator}"
        else:
            raise RuntimeError(f"cannot read model value {v} for {name}")
    return out
