"""C19 - analysis tables are a faithful tabulation of the frame results (partly: see meta / DESIGN)."""
import atexit
import math
import shutil
import tempfile
from fractions import Fraction

from perception_eval.common.status import MatchingStatus
from perception_eval.config import PerceptionEvaluationConfig
from perception_eval.evaluation.result.perception_frame_result import get_object_status
from perception_eval.tool.perception_analyzer3d import PerceptionAnalyzer3D

from .. import symx
from ..runner import Obligation, Out
from ..symx import L, assume, choose, real
from . import scene as S
from .scene import CAR, FP, PED

TARGETS = [CAR, PED]
_TMP = []
EST_YAW = (8, 0, 0, 1)
EST_YAW_ANGLE = 2 * math.atan2(1, 8)


def _tmpdir():
    if not _TMP:
        _TMP.append(tempfile.mkdtemp(prefix="verif_c19_"))
        atexit.register(lambda: shutil.rmtree(_TMP[0], ignore_errors=True))
    return _TMP[0]


def _analyzer(divisions):
    d = dict(evaluation_task="detection", target_labels=["car", "pedestrian"], max_x_position=150.0, max_y_position=150.0,
             min_point_numbers=[0, 0], label_prefix="autoware", center_distance_thresholds=[[1.0, 1.0]],
             plane_distance_thresholds=[[2.0, 2.0]], iou_2d_thresholds=None, iou_3d_thresholds=None)
    cfg = PerceptionEvaluationConfig([], "base_link", _tmpdir(), d)
    return PerceptionAnalyzer3D(cfg, num_area_division=divisions)


def _frames(frame, ego_q, n, m, nframes, g_labels):
    """1-2 evaluated frames of a small scene; returns frame results and the scene objects per frame"""
    out = []
    for k in range(nframes):
        pose = S.Pose(frame, ego_q, tag=f"ego{k}")
        ests = [S.SObj(f"e{i}", pose, CAR, real(f"f{k}_e{i}_ego_x", -100, 100), 0.0, conf=[0.9, 0.7][i], yaw_q=EST_YAW,
                       unix_time=k * 100000) for i in range(n)]
        gts = [S.SObj(f"g{j}", pose, choose(f"f{k}_g{j}_label", g_labels), real(f"f{k}_g{j}_ego_x", -100, 100), 0.0,
                      is_gt=True, unix_time=k * 100000) for j in range(m)]
        for g in gts:  # no tie in the nearest-side selection of the plane distance (see C07)
            assume(L.Or(g.ex > 0.01, g.ex < -0.01))
        crit = ("xy", [real(f"f{k}_crit_max_x", 0, 120), 120.0], [50.0, 50.0])
        fr, _ = S.run_frame(pose, ests, gts, TARGETS, "default", crit, [2.0, 2.0], frame_name=str(k), unix_time=k * 100000)
        out.append((fr, pose, ests, gts))
    return out


def status_tallies(frame, ego_q, n, m, nframes):
    """get_object_status: every critical ground truth is tallied exactly once per frame, under its own status."""
    frs = _frames(frame, ego_q, n, m, nframes, [CAR, FP])
    statuses = get_object_status([f[0] for f in frs])
    by_uuid = {}
    for s_ in statuses:
        by_uuid.setdefault(s_.uuid, []).append(s_)
    parts = {"one_record_per_uuid": all(len(v) == 1 for v in by_uuid.values())}
    known_region = False
    conds, rates = [], []
    for k, (fr, pose, ests, gts) in enumerate(frs):
        p = fr.pass_fail_result
        crit_g = {id(x) for x in fr.frame_ground_truth.objects}
        tp_g = [id(r.ground_truth_object) for r in p.tp_object_results]
        fp_g = [id(r.ground_truth_object) for r in p.fp_object_results if r.ground_truth_object is not None]
        fn_g = [id(x) for x in p.fn_objects]
        tn_g = [id(x) for x in p.tn_objects]
        for g in gts:
            rec = by_uuid.get(g.uuid, [None])[0]
            tallies = dict(total=0, tp=0, fp=0, tn=0, fn=0)
            if rec is not None:
                tallies = dict(total=rec.total_frame_nums.count(k), tp=rec.tp_frame_nums.count(k),
                               fp=rec.fp_frame_nums.count(k), tn=rec.tn_frame_nums.count(k), fn=rec.fn_frame_nums.count(k))
            gid = id(g.obj)
            is_crit = gid in crit_g
            # a ground truth paired with a failing estimate is listed both in an FP result and in the FN list
            if gid in fp_g and gid in fn_g:
                known_region = True
            conds.append(tallies["total"] == (1 if is_crit else 0))
            conds.append(tallies["tp"] == tp_g.count(gid) and tallies["tn"] == tn_g.count(gid))
            conds.append(tallies["fn"] + tallies["fp"] == (1 if (is_crit and gid not in tp_g and gid not in tn_g) else 0))
    for s_ in statuses:
        for r in s_.get_status_rates():
            rates.append(r.rate == float("inf") or 0 <= r.rate <= 1)
    parts["each_ground_truth_tallied_once_per_frame"] = all(conds)
    parts["rates_in_unit_interval"] = all(rates)
    return Out(parts=parts, known={"C19-matched-failing-ground-truth-tallied-twice": known_region},
               obs={"n": len(statuses), "totals": sorted((s_.uuid, len(s_.total_frame_nums)) for s_ in statuses)})


def table_rows(frame, ego_q, n, m, divisions):
    """format2dict rows: ego-frame x / y / yaw, paired rows share status / frame / scene, area index."""
    (fr, pose, ests, gts), = _frames(frame, ego_q, n, m, 1, [CAR, FP])
    an = _analyzer(divisions)
    p = fr.pass_fail_result
    so = {id(o.obj): o for o in ests + gts}
    tr = fr.frame_ground_truth.transforms
    parts, n_rows = {}, 0
    items = [(r, MatchingStatus.TP) for r in p.tp_object_results] + [(r, MatchingStatus.FP) for r in p.fp_object_results] + \
            [(o, MatchingStatus.TN) for o in p.tn_objects] + [(o, MatchingStatus.FN) for o in p.fn_objects]
    conds = []
    for item, status in items:
        row = an.format2dict(item, status, 0, tr)
        n_rows += 1
        g_row, e_row = row["ground_truth"], row["estimation"]
        gt = item.ground_truth_object if hasattr(item, "ground_truth_object") else item
        est = item.estimated_object if hasattr(item, "estimated_object") else None
        if gt is not None:
            o = so[id(gt)]
            conds.append(L.And(L.close(g_row["x"], o.ex, 1e-7), L.close(g_row["y"], o.ey, 1e-7)))
            conds.append(abs(float(g_row["yaw"]) - 0.0) < 1e-9 and g_row["status"] == str(status) and g_row["frame"] == 0
                         and g_row["uuid"] == o.uuid and g_row["label"] == o.label.value)
        else:
            conds.append(g_row["status"] is None)
        if est is not None:
            o = so[id(est)]
            conds.append(L.And(L.close(e_row["x"], o.ex, 1e-7), L.close(e_row["y"], o.ey, 1e-7)))
            conds.append(abs(float(e_row["yaw"]) - EST_YAW_ANGLE) < 1e-9 and e_row["status"] == str(status)
                         and e_row["frame"] == 0 and e_row["uuid"] == o.uuid)
            if gt is not None:
                conds.append(e_row["status"] == g_row["status"] and e_row["frame"] == g_row["frame"]
                             and e_row["scene"] == g_row["scene"] and e_row["area"] == g_row["area"])
        else:
            conds.append(e_row["status"] is None)
    parts["rows_hold_ego_frame_pose_and_shared_status"] = L.And(*conds)
    return Out(parts=parts, obs={"rows": n_rows})


def _n_items(fr):
    p = fr.pass_fail_result
    return len(p.tp_object_results) + len(p.fp_object_results) + len(p.tn_objects) + len(p.fn_objects)


def table_selections(frame, ego_q, n, m):
    """Selections of the table by scene / frame index, including index 0 (auxiliary, on path witnesses)."""
    frs = _frames(frame, ego_q, n, m, 2, [CAR])
    f0, f1 = frs[0][0], frs[1][0]
    parts = {"two_frames_evaluated": f0.frame_name == "0" and f1.frame_name == "1"}
    obs = {"items": [_n_items(f0), _n_items(f1)]}
    if not symx.is_symbolic() and _n_items(f0) > 0 and _n_items(f1) > 0:
        an = _analyzer(1)
        an.add([f0])         # scene 0
        an.add([f0, f1])     # scene 1 holds frames 0 and 1
        rows = lambda df: len(df) // 2  # noqa
        parts["aux_select_scene_0"] = rows(an.get(scene=0)) == _n_items(f0)
        parts["aux_select_scene_1"] = rows(an.get(scene=1)) == _n_items(f0) + _n_items(f1)
        parts["aux_select_frame_0"] = rows(an.get(frame=0)) == 2 * _n_items(f0)
        parts["aux_select_frame_1"] = rows(an.get(frame=1)) == _n_items(f1)
        parts["aux_select_scene_and_frame"] = rows(an.get(scene=1, frame=0)) == _n_items(f0)
        parts["aux_no_selection_is_everything"] = rows(an.get()) == 2 * _n_items(f0) + _n_items(f1)
    return Out(parts=parts, obs=obs)


def table_rows_via_add(ego_q, ego_q2):
    """Rows written by add() for two map-frame frames that carry the same frame name (as frames of two datasets do)
    but different ego poses: every row holds the ego-frame pose for its own frame (auxiliary, on path witnesses)."""
    out = []
    for k, q in enumerate((ego_q, ego_q2)):
        pose = S.Pose("map", q, tag=f"ego{k}")
        ests = [S.SObj("e0", pose, CAR, real(f"f{k}_e0_ego_x", 5, 60), 0.0, conf=0.9, unix_time=k * 100000)]
        gts = [S.SObj("g0", pose, CAR, real(f"f{k}_g0_ego_x", 5, 60), 0.0, is_gt=True, unix_time=k * 100000)]
        crit = ("xy", [120.0, 120.0], [50.0, 50.0])
        fr, _ = S.run_frame(pose, ests, gts, TARGETS, "default", crit, [2.0, 2.0], frame_name="0", unix_time=k * 100000)
        out.append((fr, ests, gts))
    parts = {"frames_evaluated": all(_n_items(f[0]) > 0 for f in out)}
    obs = {"items": [_n_items(f[0]) for f in out]}
    if not symx.is_symbolic():
        an = _analyzer(1)
        an.add([f[0] for f in out])
        df = an.df
        ok = True
        for (fr, ests, gts), ts in zip(out, (0, 100000)):
            rows = df[df["timestamp"] == ts]
            for o in ests + gts:
                r = rows[rows["uuid"] == o.uuid]
                ok = ok and len(r) >= 1 and all(abs(float(x) - float(o.ex)) < 1e-6 for x in r["x"]) and all(
                    abs(float(y) - float(o.ey)) < 1e-6 for y in r["y"])
        parts["aux_rows_hold_ego_frame_pose_of_their_own_frame"] = bool(ok)
    return Out(parts=parts, obs=obs)


def table_counts(frame, ego_q, n, m):
    """The pandas table itself (auxiliary: evaluated on the real code at the witness of every explored path)."""
    frs = _frames(frame, ego_q, n, m, 1, [CAR, FP])
    fr = frs[0][0]
    p = fr.pass_fail_result
    fp_g = [id(r.ground_truth_object) for r in p.fp_object_results if r.ground_truth_object is not None]
    fn_g = [id(x) for x in p.fn_objects]
    parts = {"lists_consistent": len(p.tp_object_results) + len(p.fp_object_results) == len(fr.object_results)}
    obs = {"tp": len(p.tp_object_results), "fp": len(p.fp_object_results), "tn": len(p.tn_objects), "fn": len(p.fn_objects)}
    if not symx.is_symbolic() and sum(obs.values()) > 0:  # an empty table cannot be queried (xs on an empty frame raises)
        an = _analyzer(1)
        an.add([fr])
        parts["aux_status_counts_equal_list_sizes"] = (an.num_tp, an.num_fp, an.num_tn, an.num_fn) == (
            obs["tp"], obs["fp"], obs["tn"], obs["fn"])
        parts["aux_estimation_count"] = an.num_estimation == len(fr.object_results)
        parts["aux_ground_truth_count"] = an.num_ground_truth == len(fr.frame_ground_truth.objects)
        gt_df, est_df = an.get_pair_results()
        n_pairs = 0 if gt_df is None else len(gt_df)
        cm = an.get_confusion_matrix() if n_pairs else None
        parts["aux_confusion_matrix_sums_to_paired_rows"] = True if cm is None else int(cm.to_numpy().sum()) == n_pairs
        if n_pairs:
            err = an.calculate_error(["x", "y"])
            exp = (gt_df[["x", "y"]].to_numpy(dtype=float) - est_df[["x", "y"]].to_numpy(dtype=float))
            parts["aux_error_is_gt_minus_estimate"] = bool(abs(err - exp).max() < 1e-9) if len(err) else True
    return Out(parts=parts, obs=obs,
               known={"C19-matched-failing-ground-truth-tallied-twice": any(g in fn_g for g in fp_g)})


YAWS = {"back_left": (1, 0, 0, 20), "back_right": (1, 0, 0, -20), "ahead": (8, 0, 0, 1), "right": (2, 0, 0, -1),
        "left_back": (1, 0, 0, 3),
        # the same headings stored with the other quaternion sign (w < 0)
        "ahead_flipped": (-8, 0, 0, -1), "right_flipped": (-2, 0, 0, 1)}


def _yaw_of(q):
    a = 2 * math.atan2(q[3], q[0])
    return math.atan2(math.sin(a), math.cos(a))  # the heading, whatever the sign of the stored quaternion


def table_yaw_error(frame, ego_q):
    """Yaw errors of paired rows (auxiliary: pandas layer, evaluated on the real code at the witness of every path):
    ground-truth minus estimate yaw wrapped to [-pi, pi], for headings on both sides of the +-pi seam, with the
    mean / RMS / max summaries."""
    pose = S.Pose(frame, ego_q, tag="ego0")
    gy = choose("g0_yaw", sorted(YAWS))
    ey = choose("e0_yaw", sorted(YAWS))
    ex = real("e0_ego_x", 5, 60)
    ests = [S.SObj("e0", pose, CAR, ex, 0.0, conf=0.9, yaw_q=YAWS[ey])]
    gts = [S.SObj("g0", pose, CAR, ex + real("offset", -0.5, 0.5), 0.0, is_gt=True, yaw_q=YAWS[gy])]
    crit = ("xy", [120.0, 120.0], [50.0, 50.0])
    fr, _ = S.run_frame(pose, ests, gts, TARGETS, "default", crit, [2.0, 2.0])
    parts = {"one_pair": len(fr.object_results) == 1 and fr.object_results[0].ground_truth_object is not None}
    obs = {"pair": parts["one_pair"]}
    if not symx.is_symbolic() and parts["one_pair"]:
        an = _analyzer(1)
        an.add([fr])
        err = an.calculate_error("yaw")
        d = _yaw_of(YAWS[gy]) - _yaw_of(YAWS[ey])
        want = math.atan2(math.sin(d), math.cos(d))
        parts["aux_yaw_error_is_wrapped_difference"] = len(err) == 1 and abs(float(err[0]) - want) < 1e-6 and \
            -math.pi - 1e-9 <= float(err[0]) <= math.pi + 1e-9
        summ = an.summarize_error()
        row = summ.loc[("ALL", "yaw")]
        parts["aux_yaw_summaries"] = abs(float(row["average"]) - want) < 1e-6 and abs(float(row["rms"]) - abs(want)) < 1e-6 \
            and abs(float(row["max"]) - abs(want)) < 1e-6
    return Out(parts=parts, obs=obs)


def obligations(pid, tier):
    quick = tier == "quick"
    frames = [("base_link", "id"), ("map", "yaw_3_4_5")] + ([] if quick else [("map", "yaw_neg")])
    sizes = [(1, 1), (2, 1), (1, 2)] + ([] if quick else [(2, 2)])
    tall = [dict(frame=f, ego_q=q, n=n, m=m, nframes=k) for f, q in frames for (n, m) in sizes for k in (1, 2)
            if not (k == 2 and (n + m > 2 or (quick and f == "map")))]
    rows = [dict(frame=f, ego_q=q, n=n, m=m, divisions=d) for f, q in frames for (n, m) in sizes for d in (1, 9)
            if not (quick and d == 9 and n + m > 2)]
    cnt = [dict(frame=f, ego_q=q, n=n, m=m) for f, q in frames for (n, m) in sizes]
    return [
        Obligation("status_tallies", status_tallies, cases=tall, extras=S.frame_extras,
                   desc="get_object_status / GroundTruthStatus: each ground truth once per frame; rates in [0,1]"),
        Obligation("table_rows", table_rows, cases=rows, extras=S.frame_extras,
                   desc="PerceptionAnalyzer3D.format2dict rows: ego-frame pose, shared status/frame/scene/area of pairs"),
        Obligation("table_selections", table_selections, cases=[dict(frame="base_link", ego_q="id", n=1, m=1)] + (
            [] if quick else [dict(frame="map", ego_q="yaw_3_4_5", n=2, m=1)]), extras=S.frame_extras,
                   desc="auxiliary: get(scene=…, frame=…) selections of the table, index 0 included, on path witnesses"),
        Obligation("table_rows_via_add", table_rows_via_add, cases=[dict(ego_q="yaw_3_4_5", ego_q2="yaw_neg")] + (
            [] if quick else [dict(ego_q="yaw90", ego_q2="id")]), extras=S.frame_extras,
                   desc="auxiliary: rows written by add() for same-named frames with different ego poses"),
        Obligation("table_yaw_error", table_yaw_error, cases=[dict(frame=f, ego_q=q) for f, q in frames], extras=S.frame_extras,
                   desc="auxiliary: yaw error of a paired row = wrapped ground-truth-minus-estimate yaw for all 49 heading "
                        "pairs incl. both directions across the +-pi seam and both quaternion signs; mean / RMS / max summaries"),
        Obligation("table_counts", table_counts, cases=cnt, extras=S.frame_extras,
                   desc="auxiliary: the pandas table built by add() is compared with the pass/fail lists on the real code "
                        "at the solver-generated witness of every explored path"),
    ]


def meta(pid):
    return {
        "functions": ["evaluation.result.perception_frame_result.get_object_status", "common.status.GroundTruthStatus/StatusRate",
                      "tool.perception_analyzer3d.PerceptionAnalyzer3D.format2dict", "tool.utils.get_area_idx/"
                      "generate_area_points", "(auxiliary, concrete) tool.perception_analyzer_base.add/add_frame/format2df/"
                      "get_num_*/get_pair_results/calculate_error/get_confusion_matrix"],
        "files": ["evaluation/result/perception_frame_result.py", "common/status.py", "tool/perception_analyzer3d.py",
                  "tool/perception_analyzer_base.py", "tool/utils.py"],
        "bounds": {"quick": "1-2 frames of <= 2x1 / 1x2 scenes with symbolic ego-relative x and a symbolic critical bound, "
                            "ground-truth labels {car, false_positive}, ego and map frame (exact ego yaw, symbolic "
                            "translation), 1 and 9 area divisions",
                   "thorough": "2x2 scenes, three ego poses"},
        "outside": ["the pandas table algebra (add / get_* / calculate_error / summarize_* / confusion matrix) cannot carry "
                    "symbolic values: it is NOT decided by the solver; it is executed on the real code at the witness of "
                    "every explored path (auxiliary, reported as aux_concrete_checks_on_path_witnesses)",
                    "summaries over several scenes, label/area/distance selections, 2-D analyzer",
                    "frames with no TP/FP/TN/FN item at all (the analyzer cannot query an empty table)"],
        "stand_ins": ["numpy proxy, Rot (exact), ConvexPolygon, lazy matching wrappers; real PerceptionEvaluationConfig and "
                      "real PerceptionAnalyzer3D instance"],
        "assumptions": ["ground-truth uuids unique within a frame", "no tie in the plane distance's nearest-side selection"],
    }
