"""C06 - matching scores are geometrically exact, bounded and symmetric."""
from fractions import Fraction

from perception_eval.common.label import AutowareLabel, Label
from perception_eval.common.object import DynamicObject
from perception_eval.common.object2d import DynamicObject2D
from perception_eval.common.schema import FrameID
from perception_eval.common.shape import Shape, ShapeType
from perception_eval.common.transform import HomogeneousMatrix, TransformDict
import perception_eval.evaluation.matching.object_matching as OM

from .. import build, models, symx
from ..runner import Obligation, Out
from ..symx import L, assume, integer, real

CAR = AutowareLabel.CAR
ROTS = {"0": (1, 0, 0, 0), "90": (1, 0, 0, 1), "180": (0, 0, 0, 1), "37": (3, 0, 0, 1), "53": (2, 0, 0, 1),
        "-23": (5, 0, 0, -1), "127": (1, 0, 0, 2), "-143": (1, 0, 0, -3), "14": (8, 0, 0, 1)}
SIZES = {"car": (2.0, 4.5, 1.5), "sliver": (0.1, 10.0, 1.0), "square": (5.0, 5.0, 2.0), "ped": (0.6, 0.8, 1.7)}


def quotient(v):
    """(numerator, denominator) of a score the code computed as one division (symbolic mode); the value itself
    and 1 otherwise.  Lets ratio claims be stated division-free: v = N/D, N = spec numerator, D = spec denominator."""
    if isinstance(v, symx.SReal) and not isinstance(v, symx.SqrtReal):
        e = v.e
        if symx.z3.is_app_of(e, symx.z3.Z3_OP_DIV):
            return symx.SReal(e.arg(0)), symx.SReal(e.arg(1))
    return v, 1


def ratio_is(v, num, den, eps=1e-9):
    """v == num/den, stated without division"""
    n, d = quotient(v)
    if d is 1:  # concrete value (replay) or a constant
        return L.close(v * den, num, eps * 10)
    return L.And(L.close(n, num, eps), L.close(d, den, eps), d > 0)


def M2(q):
    M = models.q_to_matrix(tuple(Fraction(v) for v in q))
    return [[M[0][0], M[0][1]], [M[1][0], M[1][1]]]


def _obj(name, pos, q, size, frame=FrameID.BASE_LINK):
    return DynamicObject(0, frame, tuple(pos), build.mkrot(q), Shape(ShapeType.BOUNDING_BOX, tuple(size)), None, 0.9,
                         Label(CAR, "car"), uuid=name)


def corners(c, q, size):
    """oracle footprint: c + R(+-l/2, +-w/2), in the repository's vertex order (+,+), (-,+), (-,-), (+,-)"""
    R = M2(q)
    w, l = size[0], size[1]
    out = []
    for sx, sy in ((1, 1), (-1, 1), (-1, -1), (1, -1)):
        lx, ly = sx * l / 2, sy * w / 2
        out.append((c[0] + build.const(R[0][0]) * lx + build.const(R[0][1]) * ly,
                    c[1] + build.const(R[1][0]) * lx + build.const(R[1][1]) * ly))
    return out


def footprint_exact(rot):
    c = (real("cx", -100, 100), real("cy", -100, 100), real("cz", -5, 5))
    size = (real("w", 0, 20, lo_strict=True), real("l", 0, 20, lo_strict=True), real("h", 0, 5, lo_strict=True))
    o = _obj("o", c, ROTS[rot], size)
    fp = list(o.get_footprint().exterior.coords)
    exp = corners(c, ROTS[rot], size)
    parts = {"closed_ring_of_4": len(fp) == 5,
             "vertices_are_center_plus_rotated_half_extents": L.And(*[L.And(L.close(p[0], e[0], 1e-9), L.close(p[1], e[1], 1e-9))
                                                                      for p, e in zip(fp[:4], exp)]),
             "area_is_w_times_l": L.close(o.get_area_bev(), size[0] * size[1], 1e-9),
             "volume": L.close(o.get_volume(), size[0] * size[1] * size[2], 1e-9)}
    cs = o.get_corners()
    parts["corner_heights"] = L.And(*[L.close(cs[i][2], c[2] + size[2] / 2, 1e-9) for i in range(4)],
                                    *[L.close(cs[i][2], c[2] - size[2] / 2, 1e-9) for i in range(4, 8)])
    return Out(parts=parts, obs={"fp": [list(p[:2]) for p in fp[:4]]})


def _separated(ca, cb):
    """separating-axis oracle for two convex quads given by corner lists"""
    tests = []
    for quad in (ca, cb):
        for i in range(4):
            p, q = quad[i], quad[(i + 1) % 4]
            nx, ny = -(q[1] - p[1]), q[0] - p[0]

            def proj(pt):
                return nx * pt[0] + ny * pt[1]

            a_min, a_max = L.Min(*[proj(v) for v in ca]), L.Max(*[proj(v) for v in ca])
            b_min, b_max = L.Min(*[proj(v) for v in cb]), L.Max(*[proj(v) for v in cb])
            tests.append(L.Or(a_max < b_min, b_max < a_min))
    return L.Or(*tests)


def iou_laws(ra, rb, sa, sb):
    """rotated pair, concrete sizes, symbolic relative translation; heights from a small concrete set."""
    za = 0.0
    zb = symx.choose("zb", [0.0, 0.4, -1.2, 5.0])
    ca = (0.0, 0.0, za)
    cb = (real("dx", -15, 15), real("dy", -15, 15), zb)
    A, B = _obj("a", ca, ROTS[ra], SIZES[sa]), _obj("b", cb, ROTS[rb], SIZES[sb])
    iou_ab = OM.IOU2dMatching(A, B).value
    iou_ba = OM.IOU2dMatching(B, A).value
    iou3 = OM.IOU3dMatching(A, B).value
    inter = OM._get_area_intersection(A, B)
    a1, a2 = SIZES[sa][0] * SIZES[sa][1], SIZES[sb][0] * SIZES[sb][1]
    h = max(0.0, min(za + SIZES[sa][2] / 2, zb + SIZES[sb][2] / 2) - max(za - SIZES[sa][2] / 2, zb - SIZES[sb][2] / 2))
    v1, v2 = a1 * SIZES[sa][2], a2 * SIZES[sb][2]
    qa, qb = corners(ca, ROTS[ra], SIZES[sa]), corners(cb, ROTS[rb], SIZES[sb])
    n_ba, d_ba = quotient(iou_ba)
    parts = {
        "intersection_bounded": L.And(inter >= -1e-9, inter <= min(a1, a2) + 1e-9),
        "iou_is_intersection_over_union": ratio_is(iou_ab, inter, a1 + a2 - inter),
        "symmetric": ratio_is(iou_ba, inter, a1 + a2 - inter),
        "disjoint_is_zero": L.Implies(_separated(qa, qb), L.close(inter, 0, 1e-12)),
        "height_overlap": L.close(OM._get_height_intersection(A, B), h, 1e-9),
        "iou3d_is_volume_ratio": ratio_is(iou3, inter * h, v1 + v2 - inter * h),
    }
    # with 0 <= I <= min(A1, A2) and 0 <= h <= min(h1, h2):  I h / (V1 + V2 - I h) <= I / (A1 + A2 - I)  and both in [0, 1]
    # (elementary; stated on the code's own numerators / denominators, cross-multiplied)
    n2, d2 = quotient(iou_ab)
    n3, d3 = quotient(iou3)
    if d2 is not 1 and d3 is not 1:
        parts["iou_in_unit_interval"] = L.And(n2 >= -1e-9, n2 <= d2 + 1e-9, n3 >= -1e-9, n3 <= d3 + 1e-9)
        parts["iou3d_not_above_bev"] = n3 * d2 <= n2 * d3 + 1e-9
    else:
        parts["iou_in_unit_interval"] = L.And(iou_ab >= -1e-9, iou_ab <= 1 + 1e-9, iou3 >= -1e-9, iou3 <= 1 + 1e-9)
        parts["iou3d_not_above_bev"] = iou3 <= iou_ab + 1e-9
    return Out(parts=parts, obs={"iou": iou_ab, "iou3": iou3, "inter": inter})


def iou_axis_aligned(kind):
    """axis-aligned pair with symbolic sizes and translation; independent interval-overlap oracle."""
    if kind == "roi":
        ax, ay = integer("ax", 0, 100), integer("ay", 0, 100)
        aw, ah = integer("aw", 1, 60), integer("ah", 1, 60)
        bx, by = integer("bx", 0, 100), integer("by", 0, 100)
        bw, bh = integer("bw", 1, 60), integer("bh", 1, 60)
        A = DynamicObject2D(0, FrameID.CAM_FRONT, 0.9, Label(CAR, "car"), roi=(ax, ay, aw, ah), uuid="a")
        B = DynamicObject2D(0, FrameID.CAM_FRONT, 0.9, Label(CAR, "car"), roi=(bx, by, bw, bh), uuid="b")
        ox = L.Max(0, L.Min(ax + aw, bx + bw) - L.Max(ax, bx))
        oy = L.Max(0, L.Min(ay + ah, by + bh) - L.Max(ay, by))
        a1, a2 = aw * ah, bw * bh
        same = L.And(ax == bx, ay == by, aw == bw, ah == bh)
    else:
        w1, l1 = real("w1", 0, 10, lo_strict=True), real("l1", 0, 10, lo_strict=True)
        w2, l2 = real("w2", 0, 10, lo_strict=True), real("l2", 0, 10, lo_strict=True)
        dx, dy = real("dx", -15, 15), real("dy", -15, 15)
        A = _obj("a", (0.0, 0.0, 0.0), ROTS["0"], (w1, l1, 1.0))
        B = _obj("b", (dx, dy, 0.0), ROTS["0"], (w2, l2, 1.0))
        ox = L.Max(0, L.Min(l1 / 2, dx + l2 / 2) - L.Max(-l1 / 2, dx - l2 / 2))
        oy = L.Max(0, L.Min(w1 / 2, dy + w2 / 2) - L.Max(-w1 / 2, dy - w2 / 2))
        a1, a2 = w1 * l1, w2 * l2
        same = L.And(dx == 0, dy == 0, w1 == w2, l1 == l2)
    iou = OM.IOU2dMatching(A, B).value
    inter = ox * oy
    n, d = quotient(iou)
    parts = {
        "iou_is_true_intersection_over_union": ratio_is(iou, inter, a1 + a2 - inter),
        "identical_is_one": L.Implies(same, L.close(inter, a1, 1e-9)),
        "disjoint_is_zero": L.Implies(L.Or(ox <= 0, oy <= 0), L.close(inter, 0, 1e-12)),
        "symmetric": ratio_is(OM.IOU2dMatching(B, A).value, inter, a1 + a2 - inter),
    }
    if d is not 1:
        parts["in_unit_interval"] = L.And(n >= 0, n <= d)
    else:
        parts["in_unit_interval"] = L.And(iou >= -1e-12, iou <= 1 + 1e-9)
    return Out(parts=parts, obs={"iou": iou})


def center_distance(kind):
    if kind == "roi":
        a = [integer(n, 0, 2000) for n in ("ax", "ay")] + [integer(n, 1, 500) for n in ("aw", "ah")]
        b = [integer(n, 0, 2000) for n in ("bx", "by")] + [integer(n, 1, 500) for n in ("bw", "bh")]
        A = DynamicObject2D(0, FrameID.CAM_FRONT, 0.9, Label(CAR, "car"), roi=tuple(a), uuid="a")
        B = DynamicObject2D(0, FrameID.CAM_FRONT, 0.9, Label(CAR, "car"), roi=tuple(b), uuid="b")
        ca = (a[0] + a[2] // 2, a[1] + a[3] // 2)
        cb = (b[0] + b[2] // 2, b[1] + b[3] // 2)
        d2 = (ca[0] - cb[0]) * (ca[0] - cb[0]) + (ca[1] - cb[1]) * (ca[1] - cb[1])
    else:
        pa = [real(n, -100, 100) for n in ("ax", "ay", "az")]
        pb = [real(n, -100, 100) for n in ("bx", "by", "bz")]
        A, B = _obj("a", pa, ROTS["37"], SIZES["car"]), _obj("b", pb, ROTS["-23"], SIZES["ped"])
        d2 = sum(((x - y) * (x - y) for x, y in zip(pa[1:], pb[1:])), (pa[0] - pb[0]) * (pa[0] - pb[0]))
    d = OM.CenterDistanceMatching(A, B).value
    d_rev = OM.CenterDistanceMatching(B, A).value
    parts = {"is_euclidean_distance_of_centres": L.And(d >= 0, L.close(d ** 2, d2, 1e-7)),
             "symmetric": L.close(d ** 2, d_rev ** 2, 1e-7),
             "none_without_ground_truth": OM.CenterDistanceMatching(A, None).value is None}
    return Out(parts=parts, obs={"d": d})


def plane_distance(re, rg, frame, ego):
    """RMS distance between corresponding corners of the ground truth's nearest-to-ego side."""
    ego_q = ROTS[ego]
    gc = (real("gx", -60, 60), real("gy", -60, 60), 0.0)
    ec = (gc[0] + real("ex_off", -3, 3), gc[1] + real("ey_off", -3, 3), 0.0)
    transforms = None
    fr = FrameID.BASE_LINK
    Rm = None
    if frame == "map":
        t = (real("ego_tx", -200, 200), real("ego_ty", -200, 200), 0.0)
        transforms = TransformDict(HomogeneousMatrix(t, build.mkrot(ego_q), FrameID.BASE_LINK, FrameID.MAP))
        fr = FrameID.MAP
        Rm = M2(ego_q)
    q_e = ROTS[re] if frame != "map" else models.qmul(tuple(Fraction(v) for v in ego_q), tuple(Fraction(v) for v in ROTS[re]))
    q_g = ROTS[rg] if frame != "map" else models.qmul(tuple(Fraction(v) for v in ego_q), tuple(Fraction(v) for v in ROTS[rg]))

    def render(p):
        if frame != "map":
            return p
        return (build.const(Rm[0][0]) * p[0] + build.const(Rm[0][1]) * p[1] + t[0],
                build.const(Rm[1][0]) * p[0] + build.const(Rm[1][1]) * p[1] + t[1], p[2])

    E = _obj("e", render(ec), q_e, SIZES["car"], fr)
    G = _obj("g", render(gc), q_g, SIZES["car"], fr)
    # ego-relative corner lists (the oracle works in the ego frame, whatever frame the objects are rendered in)
    ce, cg = corners(ec, ROTS[re], SIZES["car"]), corners(gc, ROTS[rg], SIZES["car"])
    dist2 = [c[0] * c[0] + c[1] * c[1] for c in cg]
    # margin: the two nearest ground-truth corners are strictly nearer than the other two
    pairs = [(i, j) for i in range(4) for j in range(i + 1, 4)]
    value = OM.PlaneDistanceMatching(E, G, transforms=transforms).value
    conds = []
    for (i, j) in pairs:
        others = [k for k in range(4) if k not in (i, j)]
        nearest = L.And(*[L.And(dist2[i] + Fraction(1, 10**4) < dist2[k], dist2[j] + Fraction(1, 10**4) < dist2[k]) for k in others])
        di = (ce[i][0] - cg[i][0]) * (ce[i][0] - cg[i][0]) + (ce[i][1] - cg[i][1]) * (ce[i][1] - cg[i][1])
        dj = (ce[j][0] - cg[j][0]) * (ce[j][0] - cg[j][0]) + (ce[j][1] - cg[j][1]) * (ce[j][1] - cg[j][1])
        conds.append(L.Implies(nearest, L.close(value ** 2, (di + dj) / 2, 1e-6)))
    parts = {"non_negative": value >= 0, "rms_of_nearest_side_corner_distances": L.And(*conds),
             "zero_for_identical_boxes": L.Implies(L.And(ec[0] == gc[0], ec[1] == gc[1], re == rg), L.close(value, 0, 1e-9))}
    return Out(parts=parts, obs={"pd": value})


def invariance(ra, rb, motion):
    """scores unchanged when both objects are moved by a common rigid motion about the ego."""
    # (plane distance under a common rigid motion is covered by the `plane_distance` obligation: the map-frame
    #  rendering of a scene is such a motion and the oracle there is ego-relative)
    ca = (7.0, -3.0, 0.0)
    cb = (ca[0] + real("dx", -6, 6), ca[1] + real("dy", -6, 6), 0.0)
    A, B = _obj("a", ca, ROTS[ra], SIZES["car"]), _obj("b", cb, ROTS[rb], SIZES["square"])
    qm = tuple(Fraction(v) for v in ROTS[motion])
    Rm = M2(qm)
    tx, ty = real("tx", -50, 50), real("ty", -50, 50)

    def move(p, translate):
        x = build.const(Rm[0][0]) * p[0] + build.const(Rm[0][1]) * p[1]
        y = build.const(Rm[1][0]) * p[0] + build.const(Rm[1][1]) * p[1]
        return (x + tx, y + ty, p[2]) if translate else (x, y, p[2])

    def moved(o, c, r, size, translate):
        return _obj(o, move(c, translate), models.qmul(qm, tuple(Fraction(v) for v in ROTS[r])), size)

    A2, B2 = moved("a2", ca, ra, SIZES["car"], True), moved("b2", cb, rb, SIZES["square"], True)
    d1, d2 = OM.CenterDistanceMatching(A, B).value, OM.CenterDistanceMatching(A2, B2).value
    i1, i2 = OM.IOU2dMatching(A, B).value, OM.IOU2dMatching(A2, B2).value
    (n1, e1), (n2, e2) = quotient(i1), quotient(i2)
    parts = {"center_distance_invariant": L.close(d1 ** 2, d2 ** 2, 1e-7),
             "iou_invariant": L.And(L.close(n1, n2, 1e-9), L.close(e1, e2, 1e-9)) if e1 is not 1 and e2 is not 1
             else L.close(i1, i2, 1e-9)}
    # objects with a past: A and B were already scored above; now their pose is overwritten in place, exactly what
    # common.dataset.convert_objects_to_global / _to_base_link do on their copies (`state.position = ...`,
    # `state.orientation = ...`): every score of the re-posed objects must be that of the fresh objects A2, B2
    for old, new in ((A, A2), (B, B2)):
        old.state.position = new.state.position
        old.state.orientation = new.state.orientation
    d3, i3, j3 = OM.CenterDistanceMatching(A, B).value, OM.IOU2dMatching(A, B).value, OM.IOU3dMatching(A, B).value
    j2 = OM.IOU3dMatching(A2, B2).value

    def same_ratio(u, v):
        (nu, eu), (nv, ev) = quotient(u), quotient(v)
        return L.And(L.close(nu, nv, 1e-9), L.close(eu, ev, 1e-9)) if eu is not 1 and ev is not 1 else L.close(u, v, 1e-9)

    parts["reposed_in_place_center_distance"] = L.close(d3 ** 2, d2 ** 2, 1e-9)
    parts["reposed_in_place_bev_iou"] = same_ratio(i3, i2)
    parts["reposed_in_place_iou3d"] = same_ratio(j3, j2)
    parts["reposed_in_place_plane_distance"] = L.close(OM.PlaneDistanceMatching(A, B).value ** 2,
                                                       OM.PlaneDistanceMatching(A2, B2).value ** 2, 1e-9)
    return Out(parts=parts, obs={"d": d1, "iou": i1})


def scores_after_scaled_queries(ra, rb, scale):
    """Matching scores of objects that were first asked for a *scaled* footprint / corners / point count (what the sensing
    evaluation does) equal the scores of fresh, identical objects."""
    ca = (0.0, 0.0, 0.0)
    cb = (real("dx", -8, 8), real("dy", -8, 8), 0.0)
    A, B = _obj("a", ca, ROTS[ra], SIZES["car"]), _obj("b", cb, ROTS[rb], SIZES["car"])
    A2, B2 = _obj("a", ca, ROTS[ra], SIZES["car"]), _obj("b", cb, ROTS[rb], SIZES["car"])
    s = float(Fraction(scale))
    A.get_footprint(scale=s)
    B.get_corners(scale=s)
    A.get_footprint(scale=1.0)
    used = [OM.IOU2dMatching(A, B).value, OM.IOU3dMatching(A, B).value, OM.PlaneDistanceMatching(A, B).value]
    fresh = [OM.IOU2dMatching(A2, B2).value, OM.IOU3dMatching(A2, B2).value, OM.PlaneDistanceMatching(A2, B2).value]
    (n1, d1), (n2, d2) = quotient(used[0]), quotient(fresh[0])
    parts = {"bev_iou_unchanged": L.And(L.close(n1, n2, 1e-9), L.close(d1, d2, 1e-9)) if d1 is not 1 and d2 is not 1
             else L.close(used[0], fresh[0], 1e-9),
             "plane_distance_unchanged": L.close(used[2] ** 2, fresh[2] ** 2, 1e-9),
             "area_unchanged": L.close(A.get_area_bev(), A2.get_area_bev(), 1e-12),
             "identical_boxes_plane_distance_zero": L.close(OM.PlaneDistanceMatching(A, A2).value, 0, 1e-9)}
    (m1, e1), (m2, e2) = quotient(used[1]), quotient(fresh[1])
    parts["iou3d_unchanged"] = L.And(L.close(m1, m2, 1e-9), L.close(e1, e2, 1e-9)) if e1 is not 1 and e2 is not 1 \
        else L.close(used[1], fresh[1], 1e-9)
    return Out(parts=parts, obs={"iou": used[0], "pd": used[2]})


def obligations(pid, tier):
    quick = tier == "quick"
    rots = list(ROTS)
    fp = [dict(rot=r) for r in rots]
    pairs = [("0", "53", "car", "car"), ("37", "-23", "car", "square"), ("90", "0", "sliver", "car"),
             ("0", "0", "ped", "car"), ("127", "14", "car", "ped")]
    if not quick:
        pairs += [("-143", "53", "sliver", "sliver"), ("180", "37", "square", "car"), ("14", "-23", "ped", "sliver"),
                  ("53", "53", "car", "car"), ("0", "90", "car", "car")]
    iou = [dict(ra=a, rb=b, sa=s1, sb=s2) for a, b, s1, s2 in pairs]
    pd = [dict(re=a, rg=b, frame=f, ego=e) for (a, b) in ([("0", "0"), ("37", "53")] if quick else
                                                        [("0", "0"), ("37", "53"), ("-23", "127"), ("90", "14")])
          for f, e in ([("base_link", "0"), ("map", "53")] if quick else [("base_link", "0"), ("map", "53"), ("map", "-143")])]
    inv = [dict(ra=a, rb=b, motion=m) for (a, b) in ([("0", "37")] if quick else [("0", "37"), ("53", "-23")])
           for m in (("0", "53") if quick else ("0", "53", "90", "-143"))]
    return [
        Obligation("footprint_exact", footprint_exact, cases=fp,
                   desc="get_footprint vertices = centre + R(+-l/2, +-w/2); area, volume, corner heights"),
        Obligation("iou_laws", iou_laws, cases=iou,
                   desc="rotated pairs: bounds, symmetry, disjoint => 0, IoU3D <= BEV IoU, IoU formulas"),
        Obligation("iou_axis_aligned", iou_axis_aligned, cases=[dict(kind="box"), dict(kind="roi")],
                   desc="axis-aligned boxes / integer ROIs with symbolic sizes: IoU = true intersection over union"),
        Obligation("center_distance", center_distance, cases=[dict(kind="box"), dict(kind="roi")],
                   desc="centre distance = Euclidean distance of centres (ROI centres with //2)"),
        Obligation("plane_distance", plane_distance, cases=pd,
                   desc="plane distance = RMS of corner distances of the ground truth's nearest-to-ego side"),
        Obligation("scores_after_scaled_queries", scores_after_scaled_queries,
                   cases=[dict(ra=a, rb=b, scale=sc) for (a, b) in ([("0", "37")] if quick else [("0", "37"), ("53", "-23")])
                          for sc in ("3/2", "1/2")],
                   desc="scores are not affected by earlier scaled footprint / corner queries on the same objects"),
        Obligation("invariance", invariance, cases=inv,
                   desc="scores invariant under a common rigid motion about the ego; objects re-posed in place (as the frame "
                        "converters do) after having been scored give the scores of fresh objects"),
    ]


def meta(pid):
    return {
        "functions": ["common.distance_objects", "common.point.distance_points/distance_points_bev/get_point_left_right_index/"
                      "polygon_to_list", "evaluation.matching.object_matching.CenterDistanceMatching/IOU2dMatching/IOU3dMatching/"
                      "PlaneDistanceMatching/_get_area_intersection/_get_height_intersection/_get_volume_intersection",
                      "common.object.DynamicObject.get_footprint/get_corners/get_area_bev/get_volume",
                      "common.shape.Shape.__calculate_corners", "common.object2d.Roi/DynamicObject2D.get_polygon/get_area"],
        "files": ["evaluation/matching/object_matching.py", "common/object.py", "common/object2d.py", "common/shape.py",
                  "common/point.py", "common/__init__.py"],
        "bounds": {"quick": "footprint: symbolic centre and size, 9 exact yaw rotations; IoU: 5 ordered rotation pairs with "
                            "sizes from {car, sliver 0.1x10, square, pedestrian} and symbolic relative translation/heights, "
                            "plus axis-aligned pairs with symbolic sizes and integer ROIs; centre distance: all positions; "
                            "plane distance: 2 rotation pairs x (ego frame, map frame with exact ego yaw and symbolic "
                            "translation), symbolic ground-truth position and estimate offset; invariance: 1 pair x 2 motions",
                   "thorough": "10 rotation pairs; 4x3 plane-distance settings; 2x4 invariance settings"},
        "outside": ["yaw angles that are not rational-quaternion rotations", "roll/pitch", "POLYGON shapes",
                    "float rounding (`within numerical tolerance` in the statement)",
                    "the correctness of shapely itself: its convex-polygon stand-in is compared with real shapely on a "
                    "witness of every explored path, not proved"],
        "stand_ins": ["shapely Polygon -> ConvexPolygon (Sutherland-Hodgman clipping executed symbolically)",
                      "pyquaternion -> Rot (exact)", "numpy proxy (argsort, linalg.norm)", "round(x, 10) = identity"],
        "assumptions": ["plane distance: the two nearest ground-truth corners are nearer than the others by a margin of "
                        "1e-4 m^2 in squared distance (where a tie would make `nearest side` ambiguous)", "positive sizes"],
    }
