"""SymStr - a `str` subclass with a concrete (fork-chosen) length and one z3 Int code point per position.

It must subclass `str`: the repository's enum `__eq__` guards use `isinstance(x, str)`.
ASCII only (code points 1..127); case mapping is per character.
"""
import z3

from . import symx
from .symx import SBool


def _code(c):
    return c if isinstance(c, int) else c


class SymStr(str):
    # strings `hash()` may be asked to agree with (dict / set / `in __members__` lookups)
    hash_candidates = ()

    def __new__(cls, codes):
        o = str.__new__(cls, "⟨sym:%d⟩" % len(codes))
        o.codes = list(codes)
        return o

    # -- basic protocol
    def __len__(self):
        return len(self.codes)

    def __bool__(self):
        return len(self.codes) > 0

    def _is_concrete(self):
        return all(isinstance(c, int) or z3.is_int_value(c) for c in self.codes)

    def concrete(self):
        return "".join(chr(c if isinstance(c, int) else c.as_long()) for c in self.codes)

    def __str__(self):
        return self

    def __repr__(self):
        return f"SymStr(len={len(self.codes)})"

    def __format__(self, spec):
        return "<symbolic string of length %d>" % len(self.codes)

    def _map(self, f):
        return SymStr([f(c) for c in self.codes])

    def lower(self):
        if "_lower" in self.__dict__:
            return self._lower

        def f(c):
            if isinstance(c, int):
                return c + 32 if 65 <= c <= 90 else c
            return z3.If(z3.And(c >= 65, c <= 90), c + 32, c)

        self._lower = self._map(f)
        self._lower._lower = self._lower  # idempotent
        return self._lower

    def upper(self):
        if "_upper" in self.__dict__:
            return self._upper

        def f(c):
            if isinstance(c, int):
                return c - 32 if 97 <= c <= 122 else c
            return z3.If(z3.And(c >= 97, c <= 122), c - 32, c)

        self._upper = self._map(f)
        self._upper._upper = self._upper
        return self._upper

    casefold = lower

    def _eq_term(self, o):
        if isinstance(o, SymStr):
            if len(o.codes) != len(self.codes):
                return False
            pairs = list(zip(self.codes, o.codes))
        elif isinstance(o, str):
            if len(o) != len(self.codes):
                return False
            pairs = [(c, ord(ch)) for c, ch in zip(self.codes, o)]
        else:
            return NotImplemented
        if not pairs:
            return True
        conj = []
        for a, b in pairs:
            if isinstance(a, int) and isinstance(b, int):
                if a != b:
                    return False
                continue
            conj.append(a == b)
        if not conj:
            return True
        return SBool(z3.And(*conj))

    def __eq__(self, o):
        return self._eq_term(o)

    def __ne__(self, o):
        r = self._eq_term(o)
        if r is NotImplemented:
            return r
        return (~r) if isinstance(r, SBool) else (not r)

    def __hash__(self):
        """Realise by forking over the candidate constants; any other value hashes like a string no
        candidate equals."""
        for cand in type(self).hash_candidates:
            r = self._eq_term(cand)
            if r is True or (isinstance(r, SBool) and bool(r)):
                return hash(cand)
        return hash("⟨no such key⟩")

    def __contains__(self, sub):
        if isinstance(sub, SymStr):
            raise NotImplementedError
        k = len(sub)
        if k == 0:
            return True
        n = len(self.codes)
        for start in range(0, n - k + 1):
            r = SymStr(self.codes[start:start + k])._eq_term(sub)
            if r is True or (isinstance(r, SBool) and bool(r)):
                return True
        return False

    def __getitem__(self, idx):
        r = self.codes[idx]
        return SymStr(r) if isinstance(idx, slice) else SymStr([r])

    def __iter__(self):
        for c in self.codes:
            yield SymStr([c])

    def startswith(self, prefix, *a):
        if len(prefix) > len(self.codes):
            return False
        r = SymStr(self.codes[: len(prefix)])._eq_term(prefix)
        return bool(r)

    def endswith(self, suffix, *a):
        if len(suffix) > len(self.codes):
            return False
        if len(suffix) == 0:
            return True
        r = SymStr(self.codes[-len(suffix):])._eq_term(suffix)
        return bool(r)

    def __add__(self, o):
        if isinstance(o, SymStr):
            return SymStr(self.codes + o.codes)
        return SymStr(self.codes + [ord(c) for c in o])

    def __radd__(self, o):
        return SymStr([ord(c) for c in o] + self.codes)

    @staticmethod
    def _is_ws(c):
        if isinstance(c, int):
            return c in (9, 10, 11, 12, 13, 28, 29, 30, 31, 32)
        return bool(SBool(z3.Or(z3.And(c >= 9, c <= 13), z3.And(c >= 28, c <= 32))))

    def strip(self, chars=None):
        return self.lstrip(chars).rstrip(chars)

    def lstrip(self, chars=None):
        if chars is not None:
            raise NotImplementedError("strip(chars) on a symbolic string")
        i = 0
        while i < len(self.codes) and self._is_ws(self.codes[i]):
            i += 1
        return SymStr(self.codes[i:])

    def rstrip(self, chars=None):
        if chars is not None:
            raise NotImplementedError("strip(chars) on a symbolic string")
        j = len(self.codes)
        while j > 0 and self._is_ws(self.codes[j - 1]):
            j -= 1
        return SymStr(self.codes[:j])

    def split(self, *a):
        raise NotImplementedError("split on a symbolic string")

    def __deepcopy__(self, memo):
        return self


def symstr(name, maxlen, minlen=0):
    """A fresh ASCII string input of every length minlen..maxlen (the length is a fork)."""
    ctx = symx.CTX
    if not ctx.symbolic:
        return str(ctx.values[name])
    n = symx.choose(name + "#len", list(range(minlen, maxlen + 1)))
    codes = []
    for i in range(n):
        c = z3.Int(f"{name}[{i}]")
        ctx.add(z3.And(c >= 1, c <= 127))
        codes.append(c)
    ctx.inputs[name] = ("str", (n, codes))
    return SymStr(codes)
