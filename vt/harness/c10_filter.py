"""C10 - object filtering keeps exactly the objects satisfying the configured criteria."""
from fractions import Fraction

from perception_eval.common.label import AutowareLabel, Label, TrafficLightLabel
from perception_eval.common.object import DynamicObject
from perception_eval.common.object2d import DynamicObject2D
from perception_eval.common.schema import FrameID
from perception_eval.common.shape import Shape, ShapeType
from perception_eval.common.transform import HomogeneousMatrix, TransformDict
import perception_eval.evaluation.matching.objects_filter as OF
import perception_eval.evaluation.result.object_result as OR

from .. import build, symx
from ..lazy import lazy_extras
from ..runner import Obligation, Out
from ..symx import L, assume, choose, flag, integer, real

CAR, PED, UNK, FP, BUS = (AutowareLabel.CAR, AutowareLabel.PEDESTRIAN, AutowareLabel.UNKNOWN, AutowareLabel.FP,
                          AutowareLabel.BUS)
EGO_Q = {"id": (1, 0, 0, 0), "yaw_3_4_5": (2, 0, 0, 1), "yaw90": (1, 0, 0, 1), "yaw_neg": (3, 0, 0, -1)}
TARGETSETS = {"car_ped": [CAR, PED], "ped_car_unk": [PED, CAR, UNK], "car": [CAR]}


class Scene:
    """ego pose + helpers to render ego-frame coordinates into the requested frame"""

    def __init__(self, frame, ego_q):
        self.frame = FrameID.MAP if frame == "map" else FrameID.BASE_LINK
        self.transforms = None
        self.ego_q = ego_q
        if frame == "map" or frame == "base_link_with_transforms":
            t = (real("ego_tx", -500, 500), real("ego_ty", -500, 500), 0.0)
            self.t = t
            self.M = build.models.q_to_matrix(tuple(Fraction(v) for v in EGO_Q[ego_q]))
            self.transforms = TransformDict(HomogeneousMatrix(t, build.mkrot(EGO_Q[ego_q]), FrameID.BASE_LINK,
                                                              FrameID.MAP))

    def render(self, ex, ey):
        if self.frame == FrameID.BASE_LINK:
            return (ex, ey, 0.0)
        M = [[build.const(v) for v in row] for row in self.M]
        return (M[0][0] * ex + M[0][1] * ey + self.t[0], M[1][0] * ex + M[1][1] * ey + self.t[1], 0.0)

    def rot(self):
        return build.mkrot(EGO_Q[self.ego_q]) if self.frame == FrameID.MAP else build.mkrot()


class Obj:
    def __init__(self, name, scene, labels, attrs=False):
        self.ex = real(name + "_ego_x", -300, 300)
        self.ey = real(name + "_ego_y", -300, 300)
        self.label = choose(name + "_label", labels)
        self.conf = real(name + "_conf", 0, 1)
        self.points = integer(name + "_points", 0, 1000)
        self.uuid = choose(name + "_uuid", ["u1", "u2"])
        self.attributes = choose(name + "_attrs", [[], ["occlusion_state.none"], ["parked"]]) if attrs else []
        self.name = "vehicle.car" if self.label == CAR else self.label.value
        self.obj = DynamicObject(0, scene.frame, scene.render(self.ex, self.ey), scene.rot(),
                                 Shape(ShapeType.BOUNDING_BOX, (2.0, 4.0, 1.5)), None, self.conf,
                                 Label(self.label, self.name, list(self.attributes)), pointcloud_num=self.points,
                                 uuid=self.uuid)


def _lists(targets, kinds):
    """per-label symbolic bound lists for the requested parameter kinds (None otherwise)"""
    n = len(targets)

    def lst(name, lo, hi):
        return [real(f"{name}_{i}", lo, hi) for i in range(n)]

    p = dict(max_x_position_list=None, max_y_position_list=None, max_distance_list=None, min_distance_list=None,
             min_point_numbers=None, confidence_threshold_list=None, target_uuids=None, ignore_attributes=None)
    if "xy" in kinds:
        p["max_x_position_list"], p["max_y_position_list"] = lst("max_x", 0, 300), lst("max_y", 0, 300)
    if "dist" in kinds:
        p["max_distance_list"], p["min_distance_list"] = lst("max_d", 0, 400), lst("min_d", 0, 400)
    if "points" in kinds:
        p["min_point_numbers"] = [integer(f"min_points_{i}", 0, 1000) for i in range(n)]
    if "conf" in kinds:
        p["confidence_threshold_list"] = [real(f"conf_thr_{i}", 0, 1, hi_strict=True) for i in range(n)]
    if "uuid" in kinds:
        p["target_uuids"] = ["u1"]
    if "uuid0" in kinds:
        p["target_uuids"] = []  # an empty list of critical uuids: no ground truth qualifies
    if "attr" in kinds:
        p["ignore_attributes"] = ["parked", "cycle"]
    return p


def _mean(xs):
    s = 0
    for x in xs:
        s = s + x
    return s / len(xs)


def spec_keep(o, is_gt, targets, p):
    """The statement transcribed: does the filter keep object `o`?"""
    if o.label.value == "false_positive":  # either label family
        return True
    unknown = type(o.label).UNKNOWN
    relaxed = o.label == unknown and not is_gt and unknown not in targets

    def thr(lst):
        if relaxed:
            return _mean(lst)
        return lst[targets.index(o.label)]

    conds = []
    if not relaxed:
        if o.label not in targets:
            return False
        if p["ignore_attributes"] is not None:
            if any(k in o.name or k in o.attributes for k in p["ignore_attributes"]):
                return False
    if p["confidence_threshold_list"] is not None:
        conds.append(o.conf > (0.0 if relaxed else thr(p["confidence_threshold_list"])))
    if p["max_x_position_list"] is not None:
        conds.append(abs(o.ex) < thr(p["max_x_position_list"]))
        conds.append(abs(o.ey) < thr(p["max_y_position_list"]))
    if p["max_distance_list"] is not None:
        d2 = o.ex * o.ex + o.ey * o.ey
        tmax, tmin = thr(p["max_distance_list"]), thr(p["min_distance_list"])
        conds.append(d2 < tmax * tmax)  # thresholds are non-negative
        conds.append(d2 > tmin * tmin)
    if is_gt:
        if p["min_point_numbers"] is not None:
            conds.append(o.points >= (0 if relaxed else thr(p["min_point_numbers"])))
        if p["target_uuids"] is not None:
            conds.append(o.uuid in p["target_uuids"])
    return L.And(*conds)


def predicate(frame, ego_q, targets, kinds):
    """filter_objects on one object = the specification predicate, for every parameter kind."""
    scene = Scene(frame, ego_q)
    tl = TARGETSETS[targets]
    p = _lists(tl, kinds)
    is_gt = flag("is_gt")
    o = Obj("o", scene, [CAR, PED, UNK, FP, BUS], attrs="attr" in kinds)
    if is_gt:
        assume(o.conf == 1)  # ground truth carries score 1.0 (input contract)
    given = [o.obj]
    out = OF.filter_objects(given, is_gt, target_labels=tl, transforms=scene.transforms, **p)
    kept = len(out) == 1 and out[0] is o.obj
    parts = {"kept_iff_spec": L.Iff(kept, spec_keep(o, is_gt, tl, p)),
             "sublist": len(out) <= 1 and all(x is o.obj for x in out),
             "input_untouched": len(given) == 1 and given[0] is o.obj}
    return Out(parts=parts, obs={"kept": kept})


def list_laws(frame, ego_q, n, kinds):
    """order-preserving sub-list, idempotent, no mutation, widening monotone (n objects)."""
    scene = Scene(frame, ego_q)
    tl = TARGETSETS["car_ped"]
    p = _lists(tl, kinds)
    is_gt = flag("is_gt")
    objs = [Obj(f"o{i}", scene, [CAR, PED, UNK, BUS]) for i in range(n)]
    if is_gt:
        for o in objs:
            assume(o.conf == 1)
    given = [o.obj for o in objs]
    snapshot = list(given)
    out = OF.filter_objects(given, is_gt, target_labels=tl, transforms=scene.transforms, **p)
    idx = [[i for i, g in enumerate(snapshot) if g is x] for x in out]
    parts = {
        "only_input_objects": all(len(ix) == 1 for ix in idx),
        "order_preserving": [ix[0] for ix in idx if ix] == sorted(ix[0] for ix in idx if ix),
        "exactly_the_spec_set": L.And(*[L.Iff(any(x is o.obj for x in out), spec_keep(o, is_gt, tl, p)) for o in objs]),
        "input_untouched": len(given) == n and all(a is b for a, b in zip(given, snapshot)),
    }
    again = OF.filter_objects(out, is_gt, target_labels=tl, transforms=scene.transforms, **p)
    parts["idempotent"] = len(again) == len(out) and all(a is b for a, b in zip(again, out))
    # widening any bound never removes a kept object
    wide = dict(p)
    for k in ("max_x_position_list", "max_y_position_list", "max_distance_list"):
        if p[k] is not None:
            wide[k] = [v + real(f"widen_{k}_{i}", 0, 50) for i, v in enumerate(p[k])]
    if p["min_distance_list"] is not None:
        wide["min_distance_list"] = [L.If(v - 1 > 0, v - real(f"narrow_min_d_{i}", 0, 1), v)
                                     for i, v in enumerate(p["min_distance_list"])]
    if p["confidence_threshold_list"] is not None:
        wide["confidence_threshold_list"] = [v * Fraction(1, 2) for v in p["confidence_threshold_list"]]
    out_w = OF.filter_objects(given, is_gt, target_labels=tl, transforms=scene.transforms, **wide)
    parts["widening_keeps_kept"] = all(any(x is y for y in out_w) for x in out)
    return Out(parts=parts, obs={"kept": [ix[0] if ix else None for ix in idx], "wide": len(out_w)})


def pose_history(ego_q, ego_q2, kinds):
    """The same map-frame object instances filtered under one ego pose and then under another: the second answer must
    equal the specification for the second pose (no state carried between calls, no attribute written on the objects)."""
    tl = TARGETSETS["car_ped"]
    p = _lists(tl, kinds)
    is_gt = flag("is_gt")
    # the scene is fixed in the map frame; the ego looks at it from two poses
    mx, my = real("obj_map_x", -200, 200), real("obj_map_y", -200, 200)
    label = choose("o_label", [CAR, PED, UNK])
    conf = real("o_conf", 0, 1)
    if is_gt:
        assume(conf == 1)
    obj = DynamicObject(0, FrameID.MAP, (mx, my, 0.0), build.mkrot(), Shape(ShapeType.BOUNDING_BOX, (2.0, 4.0, 1.5)), None,
                        conf, Label(label, label.value), pointcloud_num=10, uuid="u1")
    attrs_before = set(vars(obj))
    outs, specs = [], []
    for k, q in enumerate((ego_q, ego_q2)):
        t = (real(f"ego{k}_tx", -300, 300), real(f"ego{k}_ty", -300, 300), 0.0)
        M = build.models.q_to_matrix(tuple(Fraction(v) for v in EGO_Q[q]))
        transforms = TransformDict(HomogeneousMatrix(t, build.mkrot(EGO_Q[q]), FrameID.BASE_LINK, FrameID.MAP))
        outs.append(OF.filter_objects([obj], is_gt, target_labels=tl, transforms=transforms, **p))

        class O:
            pass

        o = O()
        dx, dy = mx - t[0], my - t[1]  # ego-relative coordinates: R^T (p - t)
        o.ex = build.const(M[0][0]) * dx + build.const(M[1][0]) * dy
        o.ey = build.const(M[0][1]) * dx + build.const(M[1][1]) * dy
        o.label, o.conf, o.points, o.uuid, o.name, o.attributes = label, conf, 10, "u1", label.value, []
        specs.append(spec_keep(o, is_gt, tl, p))
    parts = {"first_pose_matches_spec": L.Iff(len(outs[0]) == 1, specs[0]),
             "second_pose_matches_spec": L.Iff(len(outs[1]) == 1, specs[1]),
             "no_attribute_written_on_the_object": set(vars(obj)) == attrs_before}
    return Out(parts=parts, obs={"kept": [len(o_) for o_ in outs]})


def results_filter(frame, ego_q, kinds, has_gt):
    """filter_object_results: a result is removed when either its estimate or its ground truth fails."""
    scene = Scene(frame, ego_q)
    tl = TARGETSETS["car_ped"]
    p = _lists(tl, kinds)
    e = Obj("e", scene, [CAR, UNK, BUS])
    g = Obj("g", scene, [CAR, PED, FP]) if has_gt else None
    if g is not None:
        assume(g.conf == 1)
    res = OR.DynamicObjectWithPerceptionResult(e.obj, g.obj if g else None, transforms=scene.transforms)
    given = [res]
    out = OF.filter_object_results(given, target_labels=tl, transforms=scene.transforms, **p)
    kept = len(out) == 1 and out[0] is res
    pe = dict(p, ignore_attributes=None, min_point_numbers=None, target_uuids=None)
    exp = spec_keep(e, False, tl, pe)
    if g is not None:
        pg = dict(p, confidence_threshold_list=None)
        exp = L.And(exp, spec_keep(g, True, tl, pg))
    elif p["target_uuids"]:
        exp = False
    parts = {"kept_iff_both_members_pass": L.Iff(kept, exp), "input_untouched": len(given) == 1 and given[0] is res}
    return Out(parts=parts, obs={"kept": kept})


TL = TrafficLightLabel
TL_TARGETS = {"green_red": [TL.GREEN, TL.RED], "green_unknown_red": [TL.GREEN, TL.UNKNOWN, TL.RED]}


def roi_objects(kinds, family="autoware", targets="car_ped"):
    """2-D objects (no position): label / confidence / uuid criteria only; Autoware and traffic-light label sets."""
    if family == "autoware":
        tl, labels = TARGETSETS[targets], [CAR, PED, UNK, FP, BUS]
    else:
        tl, labels = TL_TARGETS[targets], [TL.GREEN, TL.RED, TL.UNKNOWN, TL.FP, TL.YELLOW]
    p = _lists(tl, kinds)
    is_gt = flag("is_gt")
    label = choose("o_label", labels)
    conf = real("o_conf", 0, 1)
    if is_gt:
        assume(conf == 1)
    uuid = choose("o_uuid", ["u1", "u2"])
    obj = DynamicObject2D(0, FrameID.CAM_FRONT, conf, Label(label, label.value), roi=(10, 20, 30, 40), uuid=uuid)
    out = OF.filter_objects([obj], is_gt, target_labels=tl, **p)

    class O:
        pass

    o = O()
    o.label, o.conf, o.uuid, o.name, o.attributes, o.points = label, conf, uuid, label.value, [], 0
    p2 = dict(p, max_x_position_list=None, max_distance_list=None, min_point_numbers=None)
    parts = {"kept_iff_spec": L.Iff(len(out) == 1, spec_keep(o, is_gt, tl, p2))}
    return Out(parts=parts, obs={"kept": len(out)})


def positioned_2d(kinds, frame):
    """2-D objects that carry a 3-D position (traffic lights): x/y and planar-distance bounds apply to the ego-relative
    position, whatever the height; ego frame (no transforms) or a camera frame with its mounting transform."""
    tl = TL_TARGETS["green_unknown_red"]
    p = _lists(tl, kinds)
    is_gt = flag("is_gt")
    label = choose("o_label", [TL.GREEN, TL.RED, TL.UNKNOWN])
    conf = real("o_conf", 0, 1)
    if is_gt:
        assume(conf == 1)
    pos = (real("o_x", -200, 200), real("o_y", -200, 200), real("o_z", -20, 20))
    if frame == "base_link":
        fid, transforms, ego = FrameID.BASE_LINK, None, pos
    else:  # camera mounted at t, yawed by +90 deg: p_ego = R p + t
        t = (real("cam_tx", -5, 5), real("cam_ty", -5, 5), 1.5)
        fid = FrameID.CAM_TRAFFIC_LIGHT
        transforms = TransformDict(HomogeneousMatrix(t, build.mkrot((1, 0, 0, 1)), fid, FrameID.BASE_LINK))
        ego = (-pos[1] + t[0], pos[0] + t[1], pos[2] + t[2])
    obj = DynamicObject2D(0, fid, conf, Label(label, label.value), roi=(10, 20, 30, 40), uuid="u1", position=pos)
    out = OF.filter_objects([obj], is_gt, target_labels=tl, transforms=transforms, **p)

    class O:
        pass

    o = O()
    o.label, o.conf, o.uuid, o.name, o.attributes, o.points = label, conf, "u1", label.value, [], 0
    o.ex, o.ey = ego[0], ego[1]
    parts = {"kept_iff_spec": L.Iff(len(out) == 1, spec_keep(o, is_gt, tl, dict(p, min_point_numbers=None)))}
    return Out(parts=parts, obs={"kept": len(out)})


def obligations(pid, tier):
    quick = tier == "quick"
    frames = [("base_link", "id"), ("map", "yaw_3_4_5"), ("map", "yaw_neg")]
    if not quick:
        frames += [("base_link_with_transforms", "yaw90"), ("map", "yaw90"), ("map", "id")]
    kindsets = [(), ("xy",), ("dist",), ("conf",), ("points", "uuid"), ("attr",), ("xy", "conf", "points"),
                ("dist", "conf", "uuid", "attr"), ("uuid0",)]
    pred = [dict(frame=f, ego_q=q, targets=t, kinds=k) for f, q in frames for t in TARGETSETS for k in kindsets
            if not (quick and t == "car" and len(k) > 1)]
    lists = [dict(frame=f, ego_q=q, n=n, kinds=k) for f, q in frames[:2] for n in ([2] if quick else [2, 3])
             for k in [("xy",), ("dist",), ("conf",)] + ([] if quick else [("xy", "conf")])
             if not (quick and f == "map" and k == ("dist",))  # map-frame ring bounds: predicate + thorough tier
             and not (n == 3 and (f != "base_link" or k not in (("xy",), ("conf",), ("dist",))))]  # three objects: run time
    resf = [dict(frame=f, ego_q=q, kinds=k, has_gt=h) for f, q in frames[:2]
            for k in [("xy",), ("dist", "conf"), ("points", "uuid"), ("attr", "conf"), ("uuid0",)] for h in (True, False)]
    return [
        Obligation("predicate", predicate, cases=pred, desc="filter_objects on one object equals the specification predicate"),
        Obligation("list_laws", list_laws, cases=lists,
                   desc="order-preserving sub-list, idempotent, no mutation, widening never removes a kept object"),
        Obligation("pose_history", pose_history,
                   cases=[dict(ego_q=a, ego_q2=b, kinds=k) for a, b in [("id", "yaw_3_4_5"), ("yaw_neg", "yaw90")]
                          for k in [("xy",), ("dist",)] + ([] if quick else [("xy", "conf"), ("dist", "points")])],
                   desc="the same object instances filtered under two different ego poses"),
        Obligation("results_filter", results_filter, cases=resf, extras=lazy_extras,
                   desc="filter_object_results keeps a result iff estimate and ground truth both pass"),
        Obligation("roi_objects", roi_objects,
                   cases=[dict(kinds=k) for k in [(), ("conf",), ("uuid",), ("conf", "uuid")]]
                   + [dict(kinds=k, targets="ped_car_unk") for k in [(), ("conf",)]]
                   + [dict(kinds=k, family="traffic_light", targets=t) for t in TL_TARGETS for k in [(), ("conf",), ("conf", "uuid")]],
                   desc="2-D objects: label/confidence/uuid criteria, Autoware and traffic-light label sets with and "
                        "without UNKNOWN as a target"),
        Obligation("positioned_2d", positioned_2d,
                   cases=[dict(kinds=k, frame=f) for f in ("base_link", "camera") for k in [("xy",), ("dist",), ("dist", "conf")]],
                   desc="2-D objects carrying a 3-D position: x/y and planar-distance bounds on the ego-relative position"),
    ]


def meta(pid):
    return {
        "functions": ["evaluation.matching.objects_filter._is_target_object/filter_objects/filter_object_results",
                      "common.threshold.LabelThreshold/get_label_threshold", "common.label.Label.contains/contains_any/"
                      "is_fp/is_unknown", "common.object.DynamicObject.get_distance_bev",
                      "common.transform.TransformDict.transform (inverse fallback)"],
        "files": ["evaluation/matching/objects_filter.py", "common/threshold.py", "common/label.py", "common/object.py",
                  "common/transform.py"],
        "bounds": {"quick": "predicate: 1 object (ego-relative x,y, confidence, point count symbolic; label of 5; uuid of 2; "
                            "attribute sets of 3), ground truth or estimate, ego frame or map frame with an exact-rotation "
                            "ego pose and symbolic translation, 3 target-label lists, 8 combinations of bound kinds with "
                            "symbolic per-label bounds; list laws: 2 objects; results: 1 result",
                   "thorough": "6 frame/pose settings; list laws with 3 objects"},
        "outside": ["objects within float rounding of a bound", "map-frame objects filtered without transforms (the code "
                    "then skips range tests; not covered by the statement)", "target_labels=None together with per-label "
                    "bounds"],
        "stand_ins": ["numpy proxy (mean, linalg.inv)", "pyquaternion -> Rot (exact)", "lazy matching wrappers (results)"],
        "assumptions": ["ground truths carry semantic_score 1.0 and confidence thresholds lie in [0,1)",
                        "bounds are non-negative", "ignore-attribute matching follows Label.contains (substring of the "
                        "original name or member of the attribute list), evaluated concretely"],
    }
