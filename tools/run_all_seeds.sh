#!/bin/bash
# tools/run_all_seeds.sh [tier]: self-test - every kept seeded change is applied to a scratch worktree of /repo (never
# to /repo itself), the property's check is run against that copy (PYTHONPATH) with its output redirected to a scratch
# directory, and the exit code is reported.  Expect exit=1 for every seed.  The scratch copies are removed at the end.
tier=${1:-quick}
wt=$(mktemp -d /tmp/seedrepo_XXXX); out=$(mktemp -d /tmp/seedout_XXXX)
git -C /repo worktree add -q --detach $wt HEAD || exit 9
cd /verif
for d in seeded/*/; do
  name=$(basename $d); pid=$(python3 -c "import json;print(json.load(open('$d/meta.json'))['property'])")
  git -C $wt apply /verif/$d/patch.diff || { echo "seed=$name patch does not apply"; continue; }
  start=$(date +%s)
  PYTHONPATH=$wt/perception_eval VERIF_OUT_DIR=$out ./bin/check $pid --tier $tier > $out/$name.log 2>&1; code=$?
  git -C $wt checkout -q -- .
  echo "seed=$name property=$pid exit=$code wall=$(( $(date +%s) - start ))s violations=$(grep -c '^VIOLATION' $out/$name.log)"
done
git -C /repo worktree remove --force $wt; rm -rf $out
