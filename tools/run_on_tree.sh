#!/bin/bash
# tools/run_on_tree.sh <repo-copy> <tier> <property ids...>: self-test - run checks against another copy of the
# repository (e.g. a scratch worktree with behaviour-preserving refactorings: every check must stay quiet, exit 0).
# Evidence / replays go to a scratch directory, /verif/evidence is not touched.
wt=$1; tier=$2; shift 2
out=$(mktemp -d /tmp/treeout_XXXX)
cd /verif
for pid in "$@"; do
  start=$(date +%s)
  PYTHONPATH=$wt/perception_eval VERIF_OUT_DIR=$out ./bin/check $pid --tier $tier > $out/$pid.log 2>&1; code=$?
  echo "tree=$wt property=$pid exit=$code wall=$(( $(date +%s) - start ))s $(grep -E '^(VIOLATION|HARNESS-ERROR|INCONCLUSIVE|WITNESS)' $out/$pid.log | head -2 | cut -c1-200 | tr '\n' ' ')"
  [ $code -ne 0 ] && cp $out/$pid.log /tmp/tree_fail_$(basename $wt)_$pid.log
done
rm -rf $out
