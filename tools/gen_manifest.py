#!/usr/bin/env python3
"""Regenerate /verif/MANIFEST.json from the table below (kept valid at all times)."""
import json, os

HERE = os.path.dirname(os.path.dirname(os.path.abspath(__file__)))
TECH = ("symbolic execution of the real functions (operator-overloading executor, exhaustive DFS over solver-decided "
        "branches) with z3 deciding path_condition AND NOT property per path")
NOTE = ("Trusted base: z3 5.1.0; the stand-ins for numpy/math/pyquaternion/shapely (validated per path against the real "
        "libraries on a solver witness); floats modelled as exact reals; bounds as listed in the evidence file.")

CLAIMED = {
    "C01": ("4 C01", "Every input of get_object_results within the bound (<=2x2 quick / <=3x3 thorough objects, all label "
            "policies, matching modes, tasks, symbolic thresholds and scores) satisfies one-to-one/completeness/"
            "no-mutation on every feasible path of the real code; bounded model checking is the right level because the "
            "property is universally quantified over continuous scores and finite label/frame choices."),
    "C02": ("4 C02", "Stepwise-greedy characterisation and the no-blocking-pair formula of the statement are decided by z3 "
            "for every feasible path of get_object_results within the same bounds as C01, ties included."),
    "C14": ("4 C14", "LabelConverter is executed on a symbolic ASCII name of every length up to the bound: totality, case "
            "insensitivity, registry-faithful lookup, the canonical-name law, documented names and merge consistency are "
            "decided by z3 for all strings of those lengths, all families/tasks/merge settings."),
    "C20": ("4 C20", "Each of the seven string parsers, Shape(str) and TransformKey(str) is executed on a symbolic ASCII string "
            "of every length up to the bound; z3 decides for every member that its own value parses to it and that "
            "non-members are rejected or mapped to the documented fallback."),
    "C18": ("4 C18", "HomogeneousMatrix/TransformDict/TransformKey are executed with exact rational rotations (11 quaternions, both "
            "signs, matrix or quaternion input) and symbolic translations/positions; the group laws and registry rules are "
            "linear-arithmetic queries decided by z3 for all translations and positions."),
    "C09": ("4 C09", "The APH weight and the yaw error are executed with both yaw angles (and the ego yaw) as symbolic reals over the "
            "whole circle and both quaternion signs; the claims are linear real arithmetic with ite/floor, so z3 decides them "
            "for every angle pair, not a grid."),
    "C15": ("4 C15", "set_thresholds is executed on every threshold shape within the bound (scalar / flat / nested, mixed item "
            "types) with symbolic numeric entries: broadcast values, exact lengths and idempotence are z3 equalities over the "
            "symbolic numbers, shapes are enumerated exhaustively by solver-checked forks; the configuration classes are "
            "executed on a valid base per task under every single edit with symbolic numeric values."),
    "C17": ("4 C17", "get_now_frame / get_interpolated_now_frame are executed with symbolic integer timestamps, query time and "
            "tolerance (linear integer arithmetic, all orderings), and the real interpolation code with symbolic poses or "
            "symbolic query time; z3 decides nearest-in-tolerance, the neighbour gating and segment/shortest-arc exactness."),
    "C04": ("4 C04", "Ap and Map are executed on result lists with symbolic centre distances, thresholds, confidences (all rankings "
            "by forks for N<=3) and heading weights; on every path z3 compares the returned AP/APH/mAP with an independent "
            "interpolated-PR-area term and decides the [0,1], APH<=AP and extreme-case claims."),
    "C05": ("4 C05", "CLEAR is executed on arbitrary (previous, current) frame pairs with symbolic track ids, scores and threshold: "
            "z3 decides per path that TP/FP/switch counts, score sums and the MOTA/MOTP formulas equal the definitions; an "
            "accumulator obligation shows CLEAR over F frames is the sum of pair values, so the pair step covers every history "
            "length for per-frame sizes within the bound; renaming invariance is a relational query."),
    "C10": ("4 C10", "filter_objects / filter_object_results are executed on objects with symbolic ego-relative position, confidence "
            "and point count (ego frame, or map frame with an exact-rotation ego pose and symbolic translation) under symbolic "
            "per-label bounds of every kind; z3 decides kept <=> specification predicate, idempotence, order preservation "
            "and monotonicity under widening on every path."),
    "C03": ("4 C03", "The real matching + PerceptionFrameResult.evaluate_frame + PassFailResult pipeline is executed on scenes of "
            "<=2x2 objects with symbolic ego-relative positions, symbolic critical bounds and pass/fail thresholds, in the ego "
            "frame and in the map frame under an exact-rotation ego pose with symbolic translation; z3 decides the counting "
            "identities, the critical-region oracle and the TP rule on every path."),
    "C06": ("4 C06", "The score classes are executed on boxes with exact rational rotations and symbolic centres/sizes/translations "
            "(footprint vertices, centre distance incl. integer ROIs, plane distance in ego and map frame) and on rotated "
            "pairs with symbolic relative translation through a symbolically executed polygon clipper; z3 decides exactness "
            "against independent oracles, bounds, symmetry, IoU3D<=BEV and invariance; the clipper is compared with real "
            "shapely on a witness of every path."),
    "C12": ("4 C12", "crop_pointcloud, the box cropping helpers, SensingFrameResult and the sensing manager's area cropping are "
            "executed on symbolic points (object arrays whose comparison masks are solver-decided forks) against boxes with "
            "symbolic centre and exact rotation / polygonal prisms with symbolic offset; z3 decides on every path that strictly "
            "inside points are reported, strictly outside points are not, the partition, scale monotonicity and the "
            "detected / not detected / warning rule."),
    "C11": ("4 C11", "The id-based pairing code (generic and traffic-light) is executed on <=3x3 ROI-less objects with symbolic "
            "integer uuids, label and camera choices; z3 decides paired <=> same uuid and camera, one-to-one use, maximality of "
            "label-correct pairs and completeness of the uuid stage on every path; the classification scores are compared with "
            "their counting definitions through the real bucketing."),
    "C08": ("4 C08", "get_positive_objects / get_negative_objects, Ap and Map are executed twice on the same symbolic results, under a "
            "symbolic threshold vector and a symbolically looser one (all ordered pairs), with the real distance / IoU score "
            "code; z3 decides TP-set inclusion, FN/FP count monotonicity and AP/APH/mAP monotonicity on every path."),
    "C07": ("4 C07", "Relational: one symbolic scene (ego-relative positions) is rendered in the ego frame and in the map frame "
            "under an exact-rotation ego pose with symbolic translation; the whole matching + frame evaluation pipeline runs on "
            "both renderings inside one symbolic execution and z3 decides that filtering, pairing, TP/FP/FN/TN membership and "
            "AP/APH (two-frame sequences: CLEAR outputs) agree on every path."),
    "C13": ("4 C13", "A real PerceptionEvaluationManager (dataset loader and visualizers stubbed as environment) is driven through "
            "call histories on scenes with symbolic positions: z3 decides that the scene score is the AP of the pooled results, "
            "that ground-truth counts add up, that frame order does not matter, and - relationally - that a call made after "
            "any of the explored prefixes returns exactly what it returns on a fresh manager, with the caller's list and the "
            "dataset unmodified."),
    "C19": ("4 C19", "Partly solver-decided: get_object_status / GroundTruthStatus tallies and PerceptionAnalyzer3D.format2dict rows are "
            "executed symbolically on evaluated frames with symbolic positions (ego and map frame) and decided by z3 on every "
            "path. The pandas table algebra (add, get_num_*, calculate_error, confusion matrix) cannot carry symbolic values; it "
            "is executed on the real code at the solver-generated witness of every explored path (auxiliary, not a for-all "
            "claim) - stated in the evidence."),
    "C16": ("4 C16", "load_all_datasets and the whole of dataset_utils' 3-D path are executed - together with the nuScenes "
            "devkit methods they call (table lookup, get_sample_data, get_boxes, Box.translate/rotate, PredictHelper) - on "
            "in-memory tables of <=3 samples x <=3 instances whose positions, sizes, point counts, ego translations and "
            "timestamps are symbolic and whose rotations are exact; z3 decides on every path that frames, objects, labels, "
            "sizes, counts, visibility, map/ego poses, the ego->map transform, the tracking history and the sensor transforms "
            "equal the tables. Only reading the JSON files is replaced (environment stub); outside: file parsing, 2-D "
            "datasets, raw sensor data."),
}
NA = {
}
PENDING = "no solver-based check is committed for this property yet (harness under construction; DESIGN.md section 4)"

props = [json.loads(l)["id"] for l in open(os.path.join(HERE, "properties.jsonl"))]
checks, na = [], []
for pid in props:
    if pid in CLAIMED:
        ref, text = CLAIMED[pid]
        checks.append({
            "property_id": pid,
            "quick_cmd": f"./bin/check {pid} --tier quick",
            "thorough_cmd": f"./bin/check {pid} --tier thorough",
            "evidence_file": f"/verif/evidence/{pid}.json",
            "replay_cmd_template": f"./bin/check {pid} --replay {{path}}",
            "engine": "symx",
            "level_claimed": {"category": "model_checking", "text": text, "design_ref": f"DESIGN.md section {ref}"},
            "level_note": NOTE,
            "technique": TECH,
        })
    else:
        na.append({"property_id": pid, "reason": NA.get(pid, PENDING)})
man = {
    "version": 1,
    "setup_cmd": "./setup.sh",
    "hooks": {
        "guard": "PERCEPTION_EVAL_VERIF",
        "enable": "no source hooks: checks substitute module globals (np, math, Quaternion, Polygon) of the imported "
                  "perception_eval modules at run time; nothing under /repo is edited, the guard variable is unused",
        "baseline_off_cmd": "cd /repo && /venv/bin/python -m pytest -ra -q -p no:cacheprovider --timeout=900 "
                            "--continue-on-collection-errors",
        "source_commits": [],
        "add_only": True,
    },
    "engines": [{
        "name": "symx", "path": "/verif/vt",
        "serves_properties": sorted(CLAIMED),
        "kind_free_text": "replay-based symbolic executor for Python (SReal/SInt/SBool/SymStr over z3 terms, forks in "
                          "__bool__, exhaustive DFS) running the real /repo functions with stand-ins for third-party "
                          "libraries; z3 decides every path's obligation; counterexamples replayed on the unshimmed code",
    }],
    "checks": checks,
    "not_applicable": na,
    "notes": "Exit codes of ./bin/check: 0 held, 1 VIOLATION (replayed on the real code), 2 inconclusive (unknown / "
             "non-reproducing / vacuous), 3 harness error. known_findings.json lists recorded defects.",
}
json.dump(man, open(os.path.join(HERE, "MANIFEST.json"), "w"), indent=1)
print("claimed", sorted(CLAIMED), "not_applicable", [n["property_id"] for n in na])
