"""Spike: replay-based symbolic executor for real Python code via operator overloading + z3."""
import math
import numbers
import time
from fractions import Fraction

import z3


class Infeasible(BaseException):
    pass


class Ctx:
    def __init__(self, timeout_ms=10000):
        self.solver = z3.Solver()
        self.solver.set("timeout", timeout_ms)
        self.prefix = []  # list of [decision(bool), has_alt(bool)]
        self.pos = 0
        self.n_checks = 0
        self.t_solver = 0.0
        self.n_unknown = 0
        self.fresh = 0
        self.path_conds = []

    def check(self, *assumptions):
        t = time.time()
        r = self.solver.check(*assumptions)
        self.t_solver += time.time() - t
        self.n_checks += 1
        if r == z3.unknown:
            self.n_unknown += 1
        return r

    def begin(self):
        self.solver.push()
        self.pos = 0
        self.fresh = 0
        self.path_conds = []

    def end(self):
        self.solver.pop()

    def add(self, c):
        self.solver.add(c)
        self.path_conds.append(c)

    def var(self, name, sort="real"):
        self.fresh += 1
        n = f"{name}#{self.fresh}"
        return z3.Real(n) if sort == "real" else (z3.Int(n) if sort == "int" else z3.Bool(n))

    def branch(self, cond):
        cond = z3.simplify(cond, som=True)
        if z3.is_true(cond):
            return True
        if z3.is_false(cond):
            return False
        if self.pos < len(self.prefix):
            d = self.prefix[self.pos][0]
            self.pos += 1
            self.add(cond if d else z3.Not(cond))
            return d
        rt = self.check(cond)
        rf = self.check(z3.Not(cond))
        can_t = rt != z3.unsat
        can_f = rf != z3.unsat
        if not can_t and not can_f:
            raise Infeasible()
        if can_t:
            self.prefix.append([True, can_f])
            self.pos += 1
            self.add(cond)
            return True
        self.prefix.append([False, False])
        self.pos += 1
        self.add(z3.Not(cond))
        return False

    def backtrack(self):
        while self.prefix:
            d, alt = self.prefix[-1]
            if alt:
                self.prefix[-1] = [not d, False]
                return True
            self.prefix.pop()
        return False


CTX = None


def _mk(name, fn):
    fn._name = name
    return fn


_OPS = {
    "lt": _mk("lt", lambda a, b: a < b),
    "le": _mk("le", lambda a, b: a <= b),
    "gt": _mk("gt", lambda a, b: a > b),
    "ge": _mk("ge", lambda a, b: a >= b),
    "eq": _mk("eq", lambda a, b: a == b),
    "ne": _mk("ne", lambda a, b: a != b),
}


def _lift(x):
    if isinstance(x, SReal):
        return x.e
    if isinstance(x, z3.ArithRef):
        return x
    if isinstance(x, bool):
        return z3.RealVal(1 if x else 0)
    if isinstance(x, int):
        return z3.RealVal(x)
    if isinstance(x, float):
        if math.isnan(x) or math.isinf(x):
            raise ValueError("nan/inf lifted")
        f = Fraction(x)
        return z3.RealVal(f"{f.numerator}/{f.denominator}")
    if isinstance(x, Fraction):
        return z3.RealVal(f"{x.numerator}/{x.denominator}")
    if hasattr(x, "item") and getattr(x, "size", 1) == 1 and getattr(x, "ndim", 0) == 0:
        return _lift(x.item())
    return NotImplemented


def _div(a, b):
    b = z3.simplify(b, som=True)
    return z3.simplify(a / b, som=True) if z3.is_rational_value(b) else a / b


class SBool:
    def __init__(self, e):
        self.e = e

    def __bool__(self):
        return CTX.branch(self.e)

    def __and__(self, o):
        return SBool(z3.And(self.e, o.e if isinstance(o, SBool) else z3.BoolVal(bool(o))))

    __rand__ = __and__

    def __or__(self, o):
        return SBool(z3.Or(self.e, o.e if isinstance(o, SBool) else z3.BoolVal(bool(o))))

    __ror__ = __or__

    def __invert__(self):
        return SBool(z3.Not(self.e))

    def __mul__(self, o):
        return self & o if isinstance(o, (SBool, bool)) else SReal(z3.If(self.e, 1, 0)) * o

    __rmul__ = __mul__

    def __eq__(self, o):
        oe = o.e if isinstance(o, SBool) else z3.BoolVal(bool(o))
        return SBool(self.e == oe)

    __hash__ = None


class SReal:

    def __init__(self, e):
        self.e = e

    def _bin(self, o, f):
        oe = _lift(o)
        if oe is NotImplemented:
            return NotImplemented
        return SReal(f(self.e, oe))

    def __add__(self, o):
        return self._bin(o, lambda a, b: a + b)

    __radd__ = __add__

    def __sub__(self, o):
        return self._bin(o, lambda a, b: a - b)

    def __rsub__(self, o):
        return self._bin(o, lambda a, b: b - a)

    def __mul__(self, o):
        return self._bin(o, lambda a, b: a * b)

    __rmul__ = __mul__

    def __truediv__(self, o):
        return self._bin(o, _div)

    def __rtruediv__(self, o):
        return self._bin(o, lambda a, b: b / a)

    def __neg__(self):
        return SReal(-self.e)

    def __pos__(self):
        return self

    def __abs__(self):
        return SReal(z3.If(self.e >= 0, self.e, -self.e))

    def __pow__(self, k):
        if isinstance(k, int) and k >= 0:
            r = z3.RealVal(1)
            for _ in range(k):
                r = r * self.e
            return SReal(r)
        if k == 0.5:
            return self.sqrt()
        return NotImplemented

    def sqrt(self):
        return SqrtReal(self.e)

    def _cmp(self, o, f):
        oe = _lift(o)
        if oe is NotImplemented:
            return NotImplemented
        return SBool(f(self.e, oe))

    def __lt__(self, o):
        return self._cmp(o, _OPS['lt'])

    def __le__(self, o):
        return self._cmp(o, _OPS['le'])

    def __gt__(self, o):
        return self._cmp(o, _OPS['gt'])

    def __ge__(self, o):
        return self._cmp(o, _OPS['ge'])

    def __eq__(self, o):
        return self._cmp(o, _OPS['eq'])

    def __ne__(self, o):
        return self._cmp(o, _OPS['ne'])

    __hash__ = None

    def __round__(self, n=None):
        return self

    def item(self):
        return self

    def conjugate(self):
        return self

    def __deepcopy__(self, memo):
        return self

    def __repr__(self):
        return f"SReal({self.e})"


class SqrtReal(SReal):
    """sqrt(radicand); comparisons use monotonicity, arithmetic introduces r>=0, r*r==radicand lazily."""

    def __init__(self, rad):
        self.rad = rad
        self._e = None

    @property
    def e(self):
        if self._e is None:
            r = CTX.var("sqrt")
            CTX.add(z3.And(r >= 0, r * r == self.rad))
            self._e = r
        return self._e

    def __pow__(self, k):
        if k == 2:
            return SReal(self.rad)
        return SReal.__pow__(self, k)

    def __round__(self, n=None):
        return self

    def _cmp(self, o, f):
        if isinstance(o, SqrtReal):
            return SBool(f(self.rad, o.rad))
        oe = _lift(o)
        if oe is NotImplemented:
            return NotImplemented
        # sqrt(a) ? t
        a = self.rad
        probe = f(z3.RealVal(0), z3.RealVal(1))  # True for <, <=, != ; False for >, >=, ==
        sq = oe * oe
        name = getattr(f, "_name", None)
        return SBool(_sqrt_cmp(a, oe, name)) if name else SReal._cmp(self, o, f)


def _sqrt_cmp(a, t, name):
    sq = t * t
    if name == "lt":
        return z3.And(t > 0, a < sq)
    if name == "le":
        return z3.And(t >= 0, a <= sq)
    if name == "gt":
        return z3.Or(t < 0, a > sq)
    if name == "ge":
        return z3.Or(t <= 0, a >= sq)
    if name == "eq":
        return z3.And(t >= 0, a == sq)
    if name == "ne":
        return z3.Or(t < 0, a != sq)


numbers.Real.register(SReal)


def explore(fn, timeout_ms=10000, max_paths=100000):
    """fn() builds symbolic inputs (via CTX), runs code, returns z3 Bool property (or SBool/bool)."""
    global CTX
    CTX = Ctx(timeout_ms)
    paths = 0
    results = []
    while True:
        CTX.begin()
        try:
            prop = fn()
            paths += 1
            if isinstance(prop, SBool):
                prop = prop.e
            elif isinstance(prop, bool):
                prop = z3.BoolVal(prop)
            r = CTX.check(z3.simplify(z3.Not(prop), som=True))
            if r == z3.sat:
                m = CTX.solver.model()
                results.append(("cex", m, list(CTX.prefix)))
                CTX.end()
                break
            elif r == z3.unknown:
                results.append(("unknown", None, list(CTX.prefix)))
        except Infeasible:
            pass
        CTX.end()
        if paths >= max_paths or not CTX.backtrack():
            break
    return paths, results, CTX
