"""Helpers that build real repository objects in both modes (symbolic / concrete)."""
import math
from fractions import Fraction

import numpy as np
from pyquaternion import Quaternion

from . import models, symx
from .symx import SReal, is_sym


def F(x):
    return Fraction(x)


def mkrot(q=(1, 0, 0, 0)):
    """Rotation from a rational (un-normalised) quaternion."""
    q = tuple(Fraction(v) for v in q)
    if symx.is_symbolic():
        return models.Rot(*q)
    w, x, y, z = (float(v) for v in q)
    n = math.sqrt(w * w + x * x + y * y + z * z)
    return Quaternion(w / n, x / n, y / n, z / n)


def mkyaw(t, sign=1):
    """Yaw rotation with tan(theta/2) = t (rational)."""
    t = Fraction(t)
    return mkrot((sign * t.denominator, 0, 0, sign * t.numerator))


def yaw_of_t(t):
    t = float(Fraction(t))
    return 2 * math.atan(t)


def mkrot_theta(theta, sign=1):
    """Yaw-only rotation by angle theta (symbolic allowed) with quaternion sign."""
    if symx.is_symbolic():
        return models.Rot(theta=theta if is_sym(theta) else SReal(symx.lift(theta)), sign=sign)
    q = Quaternion(axis=[0.0, 0.0, 1.0], radians=float(theta))
    return q if sign > 0 else -q


def const(x):
    """exact constant usable in both modes"""
    if symx.is_symbolic():
        return SReal(symx.lift(x))
    return float(x)


def fval(x):
    return x


# exact-rotation catalogue: tan(theta/2) values
YAW_TS = [Fraction(0), Fraction(1), Fraction(-1), Fraction(1, 2), Fraction(-1, 3), Fraction(2), Fraction(-3),
          Fraction(1, 5), Fraction(5, 12)]
