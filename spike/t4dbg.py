import sys; sys.path.insert(0,'/tmp/spike')
import numpy as np, z3, symx, symnp
from symx import SReal
symx.CTX=symx.Ctx(); symx.CTX.begin()
a=symnp.symarray([SReal(z3.Real('a')),SReal(z3.Real('b'))])
s=SReal(z3.Real('s'))
r=(s <= a[:]); print(type(r), getattr(r,'dtype',None))
r2=(1.0 <= a[:]); print(type(r2), getattr(r2,'dtype',None))
r3=(a[:] < s + a*(s-1)); print(type(r3), getattr(r3,'dtype',None))
print(type(r*r2))
