"""C20 - configuration strings parse to the enum member they name."""
from perception_eval.common.evaluation_task import EvaluationTask, set_task
from perception_eval.common.schema import FrameID, SensorModality, Visibility
from perception_eval.common.shape import Shape, ShapeType
from perception_eval.common.transform import TransformKey
from perception_eval.evaluation.matching import MatchingLabelPolicy

from .. import symx
from ..runner import Obligation, Out
from ..symstr import SymStr, symstr
from ..symx import L

REJECT = (ValueError, AssertionError, KeyError)
ALIASES = {"v0-40": Visibility.NONE, "v40-60": Visibility.PARTIAL, "v60-80": Visibility.MOST,
           "v80-100": Visibility.FULL}


def _lower(s):
    return s.lower()


def _upper(s):
    return s.upper()


def _ident(s):
    return s


# parser table: name -> (callable, enum, key of a member, folding applied to both sides, fallback(s) or None)
PARSERS = {
    "EvaluationTask.from_value": (EvaluationTask.from_value, EvaluationTask, lambda m: m.value, _ident, None),
    "set_task": (set_task, EvaluationTask, lambda m: m.value, _ident, None),
    "FrameID.from_value": (FrameID.from_value, FrameID, lambda m: m.value, _lower, None),
    "Visibility.from_value": (Visibility.from_value, Visibility, lambda m: m.value, _ident, "alias"),
    "SensorModality.from_value": (SensorModality.from_value, SensorModality, lambda m: m.value, _ident, None),
    "ShapeType.from_value": (ShapeType.from_value, ShapeType, lambda m: m.value, _ident, None),
    "MatchingLabelPolicy.from_str": (MatchingLabelPolicy.from_str, MatchingLabelPolicy, lambda m: m.name, _upper, None),
}


# strings the documentation / configuration examples use, pinned so that silently renaming a value is reported
DOCUMENTED = {
    "EvaluationTask.from_value": {v: v.upper() for v in (
        "detection", "tracking", "prediction", "sensing", "detection2d", "tracking2d", "classification2d",
        "fp_validation", "fp_validation2d")},
    "set_task": {v: v.upper() for v in (
        "detection", "tracking", "prediction", "sensing", "detection2d", "tracking2d", "classification2d",
        "fp_validation", "fp_validation2d")},
    "FrameID.from_value": {v: v.upper() for v in (
        "base_link", "map", "cam_front", "cam_front_right", "cam_front_left", "cam_back", "cam_back_left",
        "cam_back_right", "cam_traffic_light_near", "cam_traffic_light_far")},
    "Visibility.from_value": {"full": "FULL", "most": "MOST", "partial": "PARTIAL", "none": "NONE"},
    "SensorModality.from_value": {"lidar": "LIDAR", "camera": "CAMERA", "radar": "RADAR"},
    "ShapeType.from_value": {"bounding_box": "BOUNDING_BOX", "polygon": "POLYGON"},
    "MatchingLabelPolicy.from_str": {"DEFAULT": "DEFAULT", "ALLOW_UNKNOWN": "ALLOW_UNKNOWN", "ALLOW_ANY": "ALLOW_ANY",
                                     "default": "DEFAULT", "allow_unknown": "ALLOW_UNKNOWN", "allow_any": "ALLOW_ANY"},
}


def _call(fn, s):
    try:
        return fn(s), None
    except REJECT as e:
        return None, e


def parse_roundtrip(parser, maxlen):
    fn, enum, key, fold, fallback = PARSERS[parser]
    SymStr.hash_candidates = tuple(sorted({key(m) for m in enum} | {m.name for m in enum}))
    s = symstr("s", maxlen)
    res, exc = _call(fn, s)
    fs = fold(s)
    parts = {}
    names = []
    hits = []
    for m in enum:
        hit = fs == fold(key(m))
        if hit is False:
            continue
        hits.append(hit)
        names.append(m.name)
        parts[f"names_{m.name}"] = L.Implies(hit, res is m)
    for text, member_name in DOCUMENTED[parser].items():
        h = s == text
        if h is not False:
            parts[f"documented_{text}"] = L.Implies(h, getattr(res, "name", None) == member_name
                                                    and isinstance(res, enum))
    none_hit = L.Not(L.Or(*hits))
    if fallback == "alias":
        # documented fallback: alias table, else Visibility.UNAVAILABLE
        alias_ok = []
        any_alias = []
        for a, mem in ALIASES.items():
            h = s == a
            if h is False:
                continue
            any_alias.append(h)
            alias_ok.append(L.Implies(h, res is mem))
        parts["fallback"] = L.Implies(
            none_hit, L.And(*alias_ok, L.Implies(L.Not(L.Or(*any_alias)), res is Visibility.UNAVAILABLE))
        )
    else:
        # rejected: raises, or hands back the non-member sentinel None (callers test membership); never a
        # member and never some other object
        parts["rejects_non_member"] = L.Implies(none_hit, exc is not None or res is None)
    obs = {"result": (res.name if isinstance(res, enum) else repr(res)), "exc": type(exc).__name__ if exc else None}
    return Out(parts=parts, obs=obs)


def shape_str_equals_enum(maxlen):
    SymStr.hash_candidates = tuple(m.value for m in ShapeType)
    s = symstr("s", maxlen)
    size = (1.0, 2.0, 3.0)
    try:
        sh = Shape(s, size)
        exc = None
    except Exception as e:  # noqa
        sh, exc = None, e
    ref = Shape(ShapeType.BOUNDING_BOX, size)
    hit = s == ShapeType.BOUNDING_BOX.value
    parts = {}
    if hit is not False:
        same = (
            sh is not None
            and sh.type is ShapeType.BOUNDING_BOX
            and sh.size == ref.size
            and [tuple(map(float, c)) for c in sh.footprint.exterior.coords]
            == [tuple(map(float, c)) for c in ref.footprint.exterior.coords]
        ) if sh is not None and not symx.is_symbolic() else (sh is not None and sh.type is ShapeType.BOUNDING_BOX
                                                               and sh.size == ref.size)
        parts["bounding_box_spelling"] = L.Implies(hit, same)
    hitp = s == ShapeType.POLYGON.value
    if hitp is not False:
        # Shape(POLYGON, size) without a footprint raises ValueError for the enum spelling; so must the string
        try:
            Shape(ShapeType.POLYGON, size)
            enum_raises = False
        except ValueError:
            enum_raises = True
        parts["polygon_spelling"] = L.Implies(hitp, (isinstance(exc, ValueError)) == enum_raises)
    other = L.Not(L.Or(hit, hitp))
    parts["rejects_other"] = L.Implies(other, exc is not None)
    return Out(parts=parts, obs={"type": getattr(getattr(sh, "type", None), "name", repr(getattr(sh, "type", None))),
                                 "exc": type(exc).__name__ if exc else None})


def transform_key_str_equals_enum(maxlen, dst, form="str_str"):
    """TransformKey / TransformDict with every mix of spellings: the symbolic string is one side of the key, the other
    side is given as a string or as the enum member."""
    SymStr.hash_candidates = tuple(m.value for m in FrameID)
    s = symstr("s", maxlen)
    other = dst.value if form.endswith("_str") or form.startswith("str_str") else dst
    sym_is_src = not form.startswith("dst_")
    if form == "str_enum":
        other = dst
    if form == "dst_enum":
        other = dst
    if form == "dst_str":
        other = dst.value.upper()
    try:
        k = TransformKey(s, other) if sym_is_src else TransformKey(other, s)
        exc = None
    except REJECT + (AttributeError, TypeError) as e:
        k, exc = None, e
    parts = {}
    hits = []
    for m in FrameID:
        hit = s.lower() == m.value.lower()
        if hit is False:
            continue
        hits.append(hit)
        ref = TransformKey(m, dst) if sym_is_src else TransformKey(dst, m)
        ok = k is not None and (k.src is m and k.dst is dst if sym_is_src else k.src is dst and k.dst is m) \
            and hash(k) == hash(ref) and (k == ref) is True and (k == ((m, dst) if sym_is_src else (dst, m))) is True
        parts[f"key_{m.name}"] = L.Implies(hit, ok)
    parts["rejects_other"] = L.Implies(L.Not(L.Or(*hits)), isinstance(exc, REJECT))
    if k is not None and k.src is not k.dst:
        # the registry answers the raw (string / enum) pair exactly as it answers the parsed key
        from perception_eval.common.transform import HomogeneousMatrix, TransformDict

        M = HomogeneousMatrix((1.0, 2.0, 3.0), (1.0, 0.0, 0.0, 0.0), k.src, k.dst)
        td = TransformDict([M])
        raw = (s, other) if sym_is_src else (other, s)
        try:
            item = td[raw]
        except KeyError:
            item = None
        try:
            moved = td.transform(raw, (0.5, 0.25, 0.0))
            same_point = all(bool(L.close(a, b, 1e-9)) for a, b in zip(moved, M.transform((0.5, 0.25, 0.0))))
        except KeyError:
            same_point = False
        parts["registry_answers_raw_pair"] = td.get(raw) is M and item is M and same_point and td.get(list(raw)) is M
    return Out(parts=parts, obs={"src": getattr(getattr(k, "src", None), "name", None),
                                 "dst": getattr(getattr(k, "dst", None), "name", None),
                                 "exc": type(exc).__name__ if exc else None})


def string_or_enum_call_sites(task):
    """call sites that accept an enum member or its string behave identically for both spellings (concrete sweep)."""
    from perception_eval.common.label import LabelConverter
    from perception_eval.common.transform import HomogeneousMatrix
    member = EvaluationTask.from_value(task)
    parts = {}
    for prefix in ("autoware", "traffic_light"):
        for merge in (False, True):
            a = LabelConverter(member, merge, prefix)
            b = LabelConverter(task, merge, prefix)
            parts[f"label_converter_{prefix}_{merge}"] = (
                a.evaluation_task is b.evaluation_task and [(i.label, i.name) for i in a.label_infos]
                == [(i.label, i.name) for i in b.label_infos])
    try:
        fa = FrameID.from_task(member)
    except ValueError:
        fa = "rejected"
    try:
        fb = FrameID.from_task(task)
    except ValueError:
        fb = "rejected"
    parts["frame_id_from_task"] = fa is fb or fa == fb
    m1 = HomogeneousMatrix((1.0, 2.0, 3.0), (1, 0, 0, 0), "base_link", "MAP")
    m2 = HomogeneousMatrix((1.0, 2.0, 3.0), (1, 0, 0, 0), FrameID.BASE_LINK, FrameID.MAP)
    parts["homogeneous_matrix_frames"] = m1.src is m2.src and m1.dst is m2.dst
    return Out(parts=parts, obs={"task": task})


def obligations(pid, tier):
    maxlen = 24 if tier == "quick" else 36
    obs = [
        Obligation("parse_roundtrip", lambda parser, maxlen: parse_roundtrip(parser, maxlen),
                   cases=[dict(parser=p, maxlen=maxlen) for p in PARSERS], use_shims=False,
                   desc="every member's own string value parses to that member; non-members are rejected or mapped "
                        "to the documented fallback"),
        Obligation("string_or_enum_call_sites", string_or_enum_call_sites, use_shims=False,
                   cases=[dict(task=m.value) for m in EvaluationTask],
                   desc="LabelConverter / FrameID.from_task / HomogeneousMatrix given a string or the enum member"),
        Obligation("shape_str_equals_enum", lambda maxlen: shape_str_equals_enum(maxlen),
                   cases=[dict(maxlen=maxlen)], use_shims=False,
                   desc="Shape(str, size) behaves as Shape(ShapeType member, size)"),
        Obligation("transform_key_str_equals_enum", transform_key_str_equals_enum,
                   cases=[dict(maxlen=maxlen, dst=d, form=f) for d in (FrameID.MAP, FrameID.BASE_LINK)
                          for f in ("str_str", "str_enum", "dst_enum", "dst_str")], use_shims=False,
                   desc="TransformKey(str, str) equals TransformKey(member, member) (same members, hash, ==)"),
    ]
    return obs


def meta(pid):
    return {
        "functions": ["common.evaluation_task.EvaluationTask.from_value", "common.evaluation_task.set_task",
                      "common.schema.FrameID.from_value", "common.schema.Visibility.from_value/from_alias",
                      "common.schema.SensorModality.from_value", "common.shape.ShapeType.from_value",
                      "common.shape.Shape.__init__", "evaluation.matching.object_matching.MatchingLabelPolicy.from_str",
                      "common.transform.TransformKey.__init__/__eq__/__hash__"],
        "files": ["common/evaluation_task.py", "common/schema.py", "common/shape.py", "common/transform.py",
                  "evaluation/matching/object_matching.py"],
        "bounds": {"quick": "input string: every length 0..24 (longest member value: 22), code points 1..127 symbolic per "
                            "position; every member of every enum",
                   "thorough": "lengths 0..36"},
        "outside": ["non-ASCII strings and Unicode case folding", "strings longer than the bound (all member values are "
                    "shorter, so longer strings can only be non-members)"],
        "stand_ins": ["SymStr (str subclass, per-character z3 Int code points; lower/upper/==/in/hash modelled)"],
        "assumptions": ["a parser that returns None for a non-member counts as rejecting it (callers test membership)",
                        "hash() of the symbolic string is realised by forking over the enum's member names/values"],
    }
