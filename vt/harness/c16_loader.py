"""C16 - loading a dataset reproduces its annotations as ground-truth frames.

The loader (`load_all_datasets` -> `_load_dataset` -> `_sample_to_frame` -> `_convert_nuscenes_box_to_dynamic_object`,
`_get_sample_boxes`, `_get_transforms`, `_get_tracking_data`, `_get_box_velocity`) and the devkit code it calls
(`NuScenes.get/get_sample_data/get_boxes/get_box/box_velocity`, `Box.translate/rotate`, `PredictHelper.get_past_for_agent`)
are executed on *in-memory* nuScenes tables whose numeric contents are symbolic.  The only environment stub is the table
source: `NuScenes(version, dataroot)` returns a devkit object whose tables were assigned by the harness instead of being
read from JSON files; the devkit's own reverse indexing runs on them."""
from fractions import Fraction

import nuscenes.nuscenes as NN
import nuscenes.prediction.helper as NH
import nuscenes.utils.data_classes as ND
import perception_eval.common.dataset as DS
import perception_eval.common.dataset_utils as DU
from perception_eval.common.evaluation_task import EvaluationTask
from perception_eval.common.label import LabelConverter
from perception_eval.common.schema import FrameID, Visibility

from .. import models, symnp, symx
from ..runner import Obligation, Out
from ..symx import L, assume, choose, integer, real

# exact rotations (un-normalised rational quaternions): identity, yaws, and two general 3-D rotations
ROTS = {"id": (1, 0, 0, 0), "yaw_3_4_5": (2, 0, 0, 1), "yaw90": (1, 0, 0, 1), "yaw_neg": (3, 0, 0, -1),
        "yaw180": (0, 0, 0, 1), "tilt": (5, 1, 0, 2), "general": (1, 2, -1, 3)}
CATEGORIES = ["car", "pedestrian", "vehicle.car", "Truck", "vehicle.tram", "unicorn"]  # the last two: outside the label table
OTHERS = ["vehicle.tram", "car", "unicorn"]  # fixed categories of the instances whose category is not symbolic
LEVELS = ["full", "most", "partial", "none", "v40-60", "v80-100"]
ATTRS = ["vehicle_state.parked", "pedestrian_state.standing"]


def _rot_list(name):
    """the `rotation` entry of a table record: exact rational in symbolic mode, unit floats in concrete mode"""
    q = [Fraction(v) for v in ROTS[name]]
    if symx.is_symbolic():
        return list(q)
    n = float(sum(v * v for v in q)) ** 0.5
    return [float(v) / n for v in q]


def _matrix(name):
    return models.q_to_matrix(tuple(Fraction(v) for v in ROTS[name]))


def _matvec(M, v):
    return [M[i][0] * v[0] + M[i][1] * v[1] + M[i][2] * v[2] for i in range(3)]


def _matT(M):
    return [[M[j][i] for j in range(3)] for i in range(3)]


def _matmul(A, B):
    return [[A[i][0] * B[0][j] + A[i][1] * B[1][j] + A[i][2] * B[2][j] for j in range(3)] for i in range(3)]


def _close_vec(a, b, tol=1e-7):
    a, b = list(a), list(b)
    return L.And(len(a) == len(b), *[L.close(x, y, tol) for x, y in zip(a, b)])


def _close_mat(A, B, tol=1e-7):
    return L.And(*[L.close(A[i][j], B[i][j], tol) for i in range(3) for j in range(3)])


class MemNuScenes(NN.NuScenes):
    """devkit object over tables given by the harness (no file is read); every method is the devkit's own"""

    def __init__(self, tables, dataroot):  # noqa: the devkit constructor reads JSON files; this one takes the tables
        self.version, self.dataroot, self.verbose = "annotation", dataroot, False
        self.table_names = ["category", "attribute", "visibility", "instance", "sensor", "calibrated_sensor", "ego_pose",
                            "log", "scene", "sample", "sample_data", "sample_annotation", "map"]
        for t in self.table_names:
            setattr(self, t, tables[t])
        self.__make_reverse_index__(False)


class Env:
    def __init__(self, datasets):
        self.datasets = datasets

    def __enter__(self):
        self.saved = DS.NuScenes
        DS.NuScenes = lambda version, dataroot, verbose=False: self.datasets[dataroot]
        return self

    def __exit__(self, *exc):
        DS.NuScenes = self.saved


def _extras():
    return [(NN, "np", symnp.np), (NN, "Quaternion", models.Rot), (ND, "np", symnp.np), (ND, "Quaternion", models.Rot),
            (NH, "np", symnp.np), (NH, "Quaternion", models.Rot), (DU, "float", symnp.sym_float)]


def build_dataset(tag, presence, sym, ego_rots, ann_rots, with_camera, with_visibility, spacing_us, sym_tags=True):
    """`presence[i][k]`: does instance i have an annotation in sample k.  Returns (devkit object, spec)."""
    n_inst, n_samp = len(presence), len(presence[0])
    T = {t: [] for t in ["category", "attribute", "visibility", "instance", "sensor", "calibrated_sensor", "ego_pose", "log",
                         "scene", "sample", "sample_data", "sample_annotation", "map"]}
    T["log"].append({"token": "log0", "location": "here"})
    T["map"].append({"token": "map0", "log_tokens": ["log0"], "filename": ""})
    T["scene"].append({"token": "scene0", "log_token": "log0", "name": tag})
    for c in CATEGORIES:
        T["category"].append({"token": f"cat_{c}", "name": c, "description": ""})
    for a in ATTRS:
        T["attribute"].append({"token": f"attr_{a}", "name": a, "description": ""})
    if with_visibility:
        for lv in LEVELS:
            T["visibility"].append({"token": f"vis_{lv}", "level": lv, "description": ""})
    T["sensor"].append({"token": "s_lidar", "channel": "LIDAR_CONCAT", "modality": "lidar"})
    # lidar calibrated at the ego origin (as in T4 data)
    T["calibrated_sensor"].append({"token": "cs_lidar", "sensor_token": "s_lidar", "translation": [0.0, 0.0, 0.0],
                                   "rotation": _rot_list("id"), "camera_intrinsic": []})
    cam = None
    if with_camera:
        cam = {"t": [real(f"{tag}cam_t{a}", -3, 3) if sym else v for a, v in zip("xyz", (1.5, -0.25, 1.0))], "rot": "tilt"}
        T["sensor"].append({"token": "s_cam", "channel": "CAM_FRONT", "modality": "camera"})
        T["calibrated_sensor"].append({"token": "cs_cam", "sensor_token": "s_cam", "translation": list(cam["t"]),
                                       "rotation": _rot_list(cam["rot"]), "camera_intrinsic": [[1, 0, 0], [0, 1, 0], [0, 0, 1]]})
    samples, egos = [], []
    for k in range(n_samp):
        ts = (integer(f"{tag}ts{k}", 0, 10 ** 12) if (sym and spacing_us is None) else (k * (spacing_us or 500000) + 1000))
        if k and symx.is_sym(ts):
            assume(ts > samples[-1])  # well-formed: sample timestamps strictly increase
        samples.append(ts)
        et = [real(f"{tag}ego{k}_t{a}", -1000, 1000) for a in "xyz"] if sym else [10.0 * k, -4.0, 0.5]
        er = ego_rots[k % len(ego_rots)]
        egos.append((et, er))
        T["ego_pose"].append({"token": f"ep{k}", "translation": list(et), "rotation": _rot_list(er), "timestamp": ts + 3})
        T["sample"].append({"token": f"sample{k}", "timestamp": ts, "scene_token": "scene0",
                            "prev": f"sample{k - 1}" if k else "", "next": f"sample{k + 1}" if k + 1 < n_samp else ""})
        T["sample_data"].append({"token": f"sd_lidar{k}", "sample_token": f"sample{k}", "ego_pose_token": f"ep{k}",
                                 "calibrated_sensor_token": "cs_lidar", "filename": f"data/LIDAR_CONCAT/{k}.pcd.bin",
                                 "fileformat": "bin", "is_key_frame": True, "timestamp": ts + 7, "prev": "", "next": ""})
        if with_camera:
            T["sample_data"].append({"token": f"sd_cam{k}", "sample_token": f"sample{k}", "ego_pose_token": f"ep{k}",
                                     "calibrated_sensor_token": "cs_cam", "filename": f"data/CAM_FRONT/{k}.jpg",
                                     "fileformat": "jpg", "is_key_frame": True, "timestamp": ts, "prev": "", "next": "",
                                     "width": 100, "height": 100})
            # a sweep (not a key frame) of the same camera must not become a frame or a sample entry
            T["sample_data"].append({"token": f"sd_cam_sweep{k}", "sample_token": f"sample{k}", "ego_pose_token": f"ep{k}",
                                     "calibrated_sensor_token": "cs_cam", "filename": f"data/CAM_FRONT/{k}s.jpg",
                                     "fileformat": "jpg", "is_key_frame": False, "timestamp": ts, "prev": "", "next": "",
                                     "width": 100, "height": 100})
    anns = {}
    for i in range(n_inst):
        cat = choose(f"{tag}inst{i}_category", CATEGORIES) if (sym and sym_tags and (i == 0 or sym_tags == 2)) else OTHERS[(i + 2) % len(OTHERS)]
        T["instance"].append({"token": f"inst{i}", "category_token": f"cat_{cat}", "nbr_annotations": sum(presence[i]),
                              "first_annotation_token": "", "last_annotation_token": ""})
        prev = ""
        for k in range(n_samp):
            if not presence[i][k]:
                continue
            tok = f"ann_{i}_{k}"
            pos = [real(f"{tag}a{i}_{k}_p{a}", -1000, 1000) for a in "xyz"] if sym else [3.0 * i + k, 2.0 - i, 0.25 * k]
            size = [real(f"{tag}a{i}_{k}_s{a}", 0, 20, lo_strict=True) for a in "wlh"] if sym else [2.0, 4.5 + i, 1.5]
            rot = ann_rots[(i + k) % len(ann_rots)]
            npts = integer(f"{tag}a{i}_{k}_pts", 0, 100000) if sym else 7 * i + k
            first = not any((i2, k2) in anns for i2 in range(n_inst) for k2 in range(n_samp))
            level = (choose(f"{tag}a{i}_{k}_vis", LEVELS) if (sym and sym_tags and (first or sym_tags == 2)) else LEVELS[(i + k) % len(LEVELS)]) \
                if with_visibility else None
            attrs = [ATTRS[(i + k) % 2]] if (i + k) % 3 else []
            rec = {"token": tok, "sample_token": f"sample{k}", "instance_token": f"inst{i}", "translation": list(pos),
                   "size": list(size), "rotation": _rot_list(rot), "num_lidar_pts": npts, "num_radar_pts": 3,
                   "visibility_token": f"vis_{level}" if with_visibility else "", "attribute_tokens": [f"attr_{a}" for a in attrs],
                   "prev": prev, "next": ""}
            if prev:
                T["sample_annotation"][[r["token"] for r in T["sample_annotation"]].index(prev)]["next"] = tok
            prev = tok
            T["sample_annotation"].append(rec)
            anns[(i, k)] = dict(token=tok, pos=pos, size=size, rot=rot, npts=npts, level=level, attrs=attrs, cat=cat,
                                inst=f"inst{i}")
    # the annotation table is stored instance-major (as T4 exports do); frames must still list them per sample
    nusc = MemNuScenes(T, tag)
    return nusc, dict(samples=samples, egos=egos, anns=anns, n_inst=n_inst, n_samp=n_samp, cam=cam)


def _check_frames(frames, spec, frame, task, conv, offset=0):
    parts = {}
    n_inst, n_samp = spec["n_inst"], spec["n_samp"]
    fid = FrameID.MAP if frame == "map" else FrameID.BASE_LINK
    conds = {k: [] for k in ("timestamp", "frame_name", "object_count", "identity", "label", "size", "points", "visibility",
                             "pose", "ego_to_map", "object_frame_and_time", "tracking_history", "sensor_transforms")}
    for k in range(n_samp):
        fr = frames[offset + k]
        ts = spec["samples"][k]
        conds["timestamp"].append(fr.unix_time == ts)
        conds["frame_name"].append(fr.frame_name == str(k))
        expect = [spec["anns"][(i, k)] for i in range(n_inst) if (i, k) in spec["anns"]]
        conds["object_count"].append(len(fr.objects) == len(expect))
        by_uuid = {o.uuid: o for o in fr.objects}
        conds["identity"].append(len(by_uuid) == len(fr.objects) and sorted(by_uuid) == sorted(a["inst"] for a in expect))
        et, er = spec["egos"][k]
        Re = _matrix(er)
        for a in expect:
            o = by_uuid.get(a["inst"])
            if o is None:
                continue
            want = conv.convert_label(a["cat"], list(a["attrs"]))
            conds["label"].append(o.semantic_label.label == want.label and o.semantic_label.name == a["cat"]
                                  and list(o.semantic_label.attributes) == list(a["attrs"]))
            conds["size"].append(_close_vec(o.state.size, a["size"], 1e-9))
            conds["points"].append(o.pointcloud_num == a["npts"])
            conds["visibility"].append(o.visibility is None if a["level"] is None
                                       else o.visibility == Visibility.from_value(a["level"]))
            conds["object_frame_and_time"].append(o.frame_id == fid and o.unix_time == ts)
            Ra = _matrix(a["rot"])
            got_R = o.state.orientation.rotation_matrix
            if frame == "map":
                conds["pose"].append(L.And(_close_vec(o.state.position, a["pos"]), _close_mat(got_R, Ra)))
            else:
                rel = [a["pos"][d] - et[d] for d in range(3)]
                conds["pose"].append(L.And(_close_vec(o.state.position, _matvec(_matT(Re), rel)),
                                           _close_mat(got_R, _matmul(_matT(Re), Ra))))
                # the stored ego->map transform maps the ego-frame pose onto the annotated global pose
                p, q = fr.transforms.transform((FrameID.BASE_LINK, FrameID.MAP), o.state.position, o.state.orientation)
                conds["ego_to_map"].append(L.And(_close_vec(p, a["pos"]), _close_mat(q.rotation_matrix, Ra)))
            if task == "tracking":
                past = []
                i = int(a["inst"][4:])
                for kk in range(k - 1, -1, -1):  # the devkit follows the instance's `prev` links: <= 6 records within 3.15 s
                    if (i, kk) in spec["anns"] and len(past) < 6:
                        past.append(spec["anns"][(i, kk)])
                path = o.tracked_path if o.tracked_path is not None else []
                ok = [len(path) == len(past)]
                for st, w in zip(path, past):
                    ok += [_close_vec(st.position, w["pos"]), _close_mat(st.orientation.rotation_matrix, _matrix(w["rot"])),
                           _close_vec(st.size, w["size"], 1e-9)]
                conds["tracking_history"].append(L.And(*ok))
        if spec["cam"] is not None:
            # (camera -> ego) and (camera -> map) of the frame's registry move a camera-frame point as calibrated
            x = [0.5, -2.0, 4.0]
            Rs = _matrix(spec["cam"]["rot"])
            in_ego = [s + t for s, t in zip(_matvec(Rs, x), spec["cam"]["t"])]
            in_map = [s + t for s, t in zip(_matvec(Re, in_ego), et)]
            conds["sensor_transforms"].append(L.And(
                _close_vec(fr.transforms.transform((FrameID.CAM_FRONT, FrameID.BASE_LINK), x), in_ego),
                _close_vec(fr.transforms.transform((FrameID.CAM_FRONT, FrameID.MAP), x), in_map)))
        p0 = fr.transforms.transform((FrameID.BASE_LINK, FrameID.MAP), [0.0, 0.0, 0.0])
        conds["ego_to_map"].append(_close_vec(p0, et))
    for name, cs in conds.items():
        if cs:
            parts[name] = L.And(*cs)
    return parts


PRESENCE = {
    "1x1": [[1]],
    "2x1": [[1], [1]],
    "1x2": [[1, 1]],
    "2x2_appear": [[1, 1], [0, 1]],
    "2x2_vanish": [[1, 0], [1, 1]],
    "2x3_gap": [[1, 1, 1], [1, 0, 1]],
    "1x3": [[1, 1, 1]],
    "3x2": [[1, 1], [0, 1], [1, 0]],
    "empty_sample": [[1, 0, 1]],
}


def frames_reproduce_tables(presence, frame, task, ego_rot, ann_rot, with_camera=False, with_visibility=True, merge=False,
                            spacing_us=None, tags=1):
    nusc, spec = build_dataset("d0_", PRESENCE[presence], True, [ego_rot, "yaw_neg"], [ann_rot, "yaw90"], with_camera,
                               with_visibility, 500000 if task == "tracking" and spacing_us is None else spacing_us,
                               sym_tags=tags)
    conv = LabelConverter(task, merge, "autoware")
    fid = FrameID.MAP if frame == "map" else FrameID.BASE_LINK
    with Env({"d0_": nusc}):
        frames = DS.load_all_datasets(["d0_"], EvaluationTask.from_value(task), conv, fid)
    parts = {"one_frame_per_sample": len(frames) == spec["n_samp"]}
    if len(frames) == spec["n_samp"]:
        parts.update(_check_frames(frames, spec, frame, task, LabelConverter(task, merge, "autoware")))
    return Out(parts=parts, obs={"frames": len(frames), "objects": [len(f.objects) for f in frames]})


def several_datasets(frame):
    """two datasets are loaded one after the other; frames keep dataset order and their own contents."""
    n0, s0 = build_dataset("d0_", PRESENCE["1x2"], True, ["yaw_3_4_5"], ["yaw90"], False, True, None, sym_tags=False)
    n1, s1 = build_dataset("d1_", PRESENCE["2x1"], True, ["general"], ["id"], False, True, None, sym_tags=False)
    conv = LabelConverter("detection", False, "autoware")
    fid = FrameID.MAP if frame == "map" else FrameID.BASE_LINK
    with Env({"d0_": n0, "d1_": n1}):
        frames = DS.load_all_datasets(["d0_", "d1_", "d0_"], EvaluationTask.DETECTION, conv, fid)
    parts = {"frames_add_up": len(frames) == 5}
    if len(frames) == 5:
        oracle = LabelConverter("detection", False, "autoware")
        parts.update({f"first_{k}": v for k, v in _check_frames(frames, s0, frame, "detection", oracle, 0).items()})
        parts.update({f"second_{k}": v for k, v in _check_frames(frames, s1, frame, "detection", oracle, 2).items()})
        parts.update({f"first_again_{k}": v for k, v in _check_frames(frames, s0, frame, "detection", oracle, 3).items()})
    return Out(parts=parts, obs={"frames": len(frames)})


def reload_other_frame(presence, task, ego_rot, ann_rot):
    """the same tables are loaded in the ego frame, then in the map frame, then in the ego frame again (one devkit object,
    one label converter): each load reproduces the tables, whatever was loaded before."""
    nusc, spec = build_dataset("d0_", PRESENCE[presence], True, [ego_rot, "yaw90"], [ann_rot, "tilt"], True, True,
                               500000 if task == "tracking" else None, sym_tags=False)
    conv = LabelConverter(task, False, "autoware")
    oracle = LabelConverter(task, False, "autoware")
    parts = {}
    with Env({"d0_": nusc}):
        for step, frame in enumerate(("base_link", "map", "base_link")):
            fid = FrameID.MAP if frame == "map" else FrameID.BASE_LINK
            frames = DS.load_all_datasets(["d0_"], EvaluationTask.from_value(task), conv, fid)
            parts[f"load{step}_one_frame_per_sample"] = len(frames) == spec["n_samp"]
            if len(frames) == spec["n_samp"]:
                parts.update({f"load{step}_{k}": v for k, v in _check_frames(frames, spec, frame, task, oracle).items()})
    return Out(parts=parts, obs={})


def obligations(pid, tier):
    quick = tier == "quick"
    cases = []
    for frame in ("base_link", "map"):
        for pres, task, er, ar in [("1x1", "detection", "yaw_3_4_5", "yaw90"), ("1x1", "detection", "general", "tilt"),
                                   ("2x2_appear", "detection", "yaw_3_4_5", "id"), ("2x2_vanish", "sensing", "tilt", "yaw_neg"),
                                   ("1x2", "tracking", "yaw_3_4_5", "yaw90"), ("2x3_gap", "tracking", "general", "yaw180"),
                                   ("empty_sample", "detection", "yaw90", "id")]:
            cases.append(dict(presence=pres, frame=frame, task=task, ego_rot=er, ann_rot=ar))
        cases.append(dict(presence="2x1", frame=frame, task="detection", ego_rot="tilt", ann_rot="general", with_camera=True))
        cases.append(dict(presence="1x1", frame=frame, task="detection", ego_rot="yaw_neg", ann_rot="id", with_visibility=False))
        cases.append(dict(presence="2x1", frame=frame, task="detection", ego_rot="yaw180", ann_rot="tilt", merge=True))
    if not quick:
        for frame in ("base_link", "map"):
            for er in ROTS:
                for ar in ROTS:
                    cases.append(dict(presence="1x1", frame=frame, task="detection", ego_rot=er, ann_rot=ar))
            cases += [dict(presence="2x1", frame=frame, task="sensing", ego_rot="general", ann_rot="tilt", tags=2),
                      dict(presence="1x2", frame=frame, task="tracking", ego_rot="tilt", ann_rot="general", tags=2)]
            cases += [dict(presence="3x2", frame=frame, task="tracking", ego_rot="general", ann_rot="tilt", with_camera=True),
                      dict(presence="1x3", frame=frame, task="tracking", ego_rot="tilt", ann_rot="yaw_neg", merge=True),
                      dict(presence="2x3_gap", frame=frame, task="detection", ego_rot="yaw_3_4_5", ann_rot="general")]
    return [
        Obligation("frames_reproduce_tables", frames_reproduce_tables, cases=cases, extras=_extras,
                   desc="load_all_datasets over in-memory tables: one frame per sample in order with its timestamp; one "
                        "object per annotation with instance id, label, attributes, size, point count, visibility; map / "
                        "ego pose; ego->map transform; tracking history; sensor transforms"),
        Obligation("several_datasets", several_datasets, cases=[dict(frame="base_link"), dict(frame="map")], extras=_extras,
                   desc="dataset paths [A, B, A] loaded in one call keep their order and contents"),
        Obligation("reload_other_frame", reload_other_frame, extras=_extras,
                   cases=[dict(presence="2x2_appear", task="detection", ego_rot="general", ann_rot="yaw_3_4_5"),
                          dict(presence="1x3", task="tracking", ego_rot="yaw_3_4_5", ann_rot="general")]
                   + ([] if quick else [dict(presence="2x3_gap", task="tracking", ego_rot="tilt", ann_rot="yaw_neg")]),
                   desc="one devkit object loaded in the ego frame, the map frame and the ego frame again"),
    ]


def meta(pid):
    return {
        "functions": ["common.dataset.load_all_datasets/_load_dataset/_get_sample_tokens/FrameGroundTruth",
                      "common.dataset_utils._sample_to_frame/_convert_nuscenes_box_to_dynamic_object/_get_sample_boxes/"
                      "_get_transforms/_get_box_velocity/_get_tracking_data", "common.label.LabelConverter.convert_label",
                      "common.schema.Visibility.from_value/FrameID.from_value", "common.transform.TransformDict/HomogeneousMatrix",
                      "devkit (executed, not modelled): nuscenes.NuScenes.__make_reverse_index__/get/get_sample_data/get_boxes/"
                      "get_box/box_velocity, nuscenes.utils.data_classes.Box.translate/rotate, "
                      "nuscenes.prediction.PredictHelper.get_past_for_agent"],
        "files": ["common/dataset.py", "common/dataset_utils.py", "common/label.py", "common/schema.py", "common/transform.py"],
        "bounds": {"quick": "datasets of <= 3 samples x <= 2 instances (appearing, vanishing, with a gap, an empty sample), "
                            "every annotation position, size, lidar point count, every ego translation and (detection/"
                            "sensing) every sample timestamp symbolic; category symbolic over 6 names inside and outside the "
                            "label table; visibility symbolic over 6 levels/aliases or table absent; ego / annotation "
                            "rotations from 7 exact rotations (yaws and two general 3-D ones); map and ego frame; detection, "
                            "sensing, tracking (fixed 0.5 s spacing); merge on/off; optional camera sensor with symbolic "
                            "mounting position; dataset paths [A, B, A] in one call; the same tables loaded ego / map / ego",
                   "thorough": "all 49 (ego, annotation) rotation pairs, 3 instances, 3-sample tracking histories, every "
                               "instance's category and every annotation's visibility symbolic in 2-annotation datasets"},
        "outside": ["reading and parsing the JSON table files (the devkit constructor) and raw sensor data (load_raw_data)",
                    "2-D datasets (NuImages object annotations)", "rotations outside the exact set", "velocity values "
                    "(computed on the way, not part of the statement)", "tracking with irregular sample spacing",
                    "a lidar calibrated away from the ego origin (excluded by the statement)"],
        "stand_ins": ["environment: NuScenes(version, dataroot) returns a devkit object whose tables are assigned by the "
                      "harness (MemNuScenes) - all of its methods are the devkit's", "numpy proxy and Rot also substituted "
                      "inside nuscenes.nuscenes, nuscenes.utils.data_classes, nuscenes.prediction.helper"],
        "assumptions": ["one annotation per instance and sample", "floats modelled as exact reals"],
    }
