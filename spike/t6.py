import sys, time, tempfile
sys.path.insert(0, '/tmp/spike'); sys.path.insert(0,'/repo/perception_eval')
import warnings; warnings.filterwarnings("ignore")
import logging; logging.disable(logging.CRITICAL)
from fractions import Fraction as F
import z3, symx, symnp, models
from symx import SReal, SBool
from perception_eval.common.object import DynamicObject
from perception_eval.common.shape import Shape, ShapeType
from perception_eval.common.label import Label, AutowareLabel, LabelConverter
from perception_eval.common.schema import FrameID
from perception_eval.common.evaluation_task import EvaluationTask
from perception_eval.common.dataset import FrameGroundTruth
import perception_eval.common.object as PO, perception_eval.evaluation.matching.object_matching as OM, perception_eval.common.point as PP, perception_eval.common.shape as PS
import perception_eval.common as PC, perception_eval.common.transform as PT
import perception_eval.evaluation.result.object_result as OR
import perception_eval.evaluation.metrics.detection.ap as AP
import perception_eval.evaluation.matching.objects_filter as OF
from perception_eval.evaluation.metrics import MetricsScoreConfig
from perception_eval.evaluation.result.perception_frame_result import PerceptionFrameResult
from perception_eval.evaluation.result.perception_frame_config import CriticalObjectFilterConfig, PerceptionPassFailConfig
from perception_eval.evaluation.matching import MatchingMode
for m in (PC, PP, PO, OM, PS, OR, AP, OF, PT):
    m.np = symnp.np
OM.math = symnp.math; PO.math = symnp.math
PO.Polygon = models.ConvexPolygon; OM.Polygon = models.ConvexPolygon; PS.Polygon = models.ConvexPolygon
PT.Quaternion = models.Rot
CAR=AutowareLabel.CAR
class Cfg:  # stub evaluator config
    evaluation_task=EvaluationTask.DETECTION
    label_converter=LabelConverter("detection", False, "autoware")
MAP = sys.argv[1]=="map"
NE,NG=int(sys.argv[2]),int(sys.argv[3])
def run():
    C=symx.CTX
    frame = FrameID.MAP if MAP else FrameID.BASE_LINK
    # ego pose: yaw (3/5,4/5), symbolic translation
    tx,ty = SReal(C.var("tx")), SReal(C.var("ty"))
    ego = models.Rot.yaw(F(3,5),F(4,5))
    ego2map = PT.HomogeneousMatrix((tx,ty,0.0), ego, src=FrameID.BASE_LINK, dst=FrameID.MAP)
    def mk(name, conf):
        ex = SReal(C.var(name+"_x")); C.add(ex.e>1)  # ego-frame x, in front
        ey = 0.0
        if MAP:
            p = ego2map.transform((ex,ey,0.0)); rot = ego
            pos=(p[0],p[1],p[2])
        else:
            pos=(ex,ey,0.0); rot=models.Rot()
        o = DynamicObject(0, frame, pos, rot, Shape(ShapeType.BOUNDING_BOX,(1.0,1.0,1.0)), None, conf, Label(CAR,"car"), uuid=name)
        o._ex = ex
        return o
    ests=[mk(f"e{i}", 0.9-0.1*i) for i in range(NE)]
    gts=[mk(f"g{i}", 1.0) for i in range(NG)]
    gtf = FrameGroundTruth(0, "0", list(gts), transforms=[ego2map])
    results = OR.get_object_results(EvaluationTask.DETECTION, ests, gtf.objects, target_labels=[CAR], transforms=gtf.transforms)
    mx = SReal(C.var("maxx")); C.add(mx.e>0)
    thr = SReal(C.var("thr")); C.add(thr.e>0)
    crit = CriticalObjectFilterConfig(Cfg, ["car"], max_x_position_list=[mx], max_y_position_list=[100.0])
    pf = PerceptionPassFailConfig(Cfg, ["car"], matching_threshold_list=[thr])
    mcfg = MetricsScoreConfig(EvaluationTask.DETECTION, target_labels=[CAR], center_distance_thresholds=[[1.0]])
    fr = PerceptionFrameResult(results, gtf, mcfg, crit, pf, 0, [CAR])
    fr.evaluate_frame()
    p = fr.pass_fail_result
    ntp, nfp, nfn = len(p.tp_object_results), len(p.fp_object_results), len(p.fn_objects)
    ok = (ntp+nfp == len(fr.object_results)) and (ntp+nfn == len(fr.frame_ground_truth.objects))
    prop = z3.BoolVal(ok)
    # region: every counted estimate within |x|<maxx in ego frame
    for r in fr.object_results:
        prop = z3.And(prop, abs(r.estimated_object._ex).e < mx.e)
    for g in fr.frame_ground_truth.objects:
        prop = z3.And(prop, abs(g._ex).e < mx.e)
    ap = fr.metrics_score.maps[0].aps[0].ap
    prop = z3.And(prop, symx._lift(ap) <= 1+1e-9) if ap != float("inf") else prop
    return prop
t=time.time()
paths, results, ctx = symx.explore(run, timeout_ms=20000)
print(sys.argv[1:],"paths",paths,"results",[(r[0]) for r in results][:5],len(results),"checks",ctx.n_checks,"solver_s",round(ctx.t_solver,2),"unknown",ctx.n_unknown,"wall",round(time.time()-t,2))
if results and results[0][0]=="cex": print(results[0][1])
