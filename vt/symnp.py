"""numpy / math stand-ins as seen by the repository modules during a symbolic run.

`np` is a proxy: every attribute is the real numpy unless listed here.  Overrides exist only where
object arrays holding symbolic scalars need help; when no symbolic value is involved each override
delegates to real numpy, so concrete sub-computations keep numpy's exact behaviour.
"""
import math as _math

import numpy as _np
import z3

from . import symx
from .symx import SBool, SInt, SReal, is_sym


def has_sym(a):
    if is_sym(a):
        return True
    if isinstance(a, _np.ndarray):
        return a.dtype == object and any(is_sym(v) for v in a.flat)
    if isinstance(a, (list, tuple)):
        return any(has_sym(v) for v in a)
    return False


class SymArr(_np.ndarray):
    """Object ndarray whose boolean-valued ufunc results are forced to concrete bool arrays (forking),
    so masks and fancy indexing keep numpy semantics."""

    def __array_ufunc__(self, ufunc, method, *inputs, out=None, **kw):
        inputs = tuple(i.view(_np.ndarray) if isinstance(i, SymArr) else i for i in inputs)
        if out is not None:
            kw["out"] = tuple(o.view(_np.ndarray) if isinstance(o, SymArr) else o for o in out)
        res = getattr(ufunc, method)(*inputs, **kw)
        return _post(res)

    def tolist(self):
        return self.view(_np.ndarray).tolist()

    def astype(self, dtype, *a, **k):
        # a float cast of exact / symbolic contents keeps them (floats are modelled as exact reals)
        if self.dtype == object:
            try:
                floating = _np.issubdtype(_np.dtype(dtype), _np.floating)
            except TypeError:
                floating = False
            if floating:
                return self.copy()
        return super().astype(dtype, *a, **k)


def _post(res):
    if isinstance(res, _np.ndarray) and res.dtype == object:
        if res.size and all(isinstance(v, (SBool, bool, _np.bool_)) for v in res.flat):
            return _np.array([bool(v) for v in res.flat], dtype=bool).reshape(res.shape)
        return res.view(SymArr)
    if isinstance(res, SBool):
        return bool(res)
    return res


def symarray(a):
    return _np.asarray(a, dtype=object).view(SymArr)


def _sqrt(v):
    if isinstance(v, SReal):
        return v.sqrt()
    return _math.sqrt(v)


def _is_zero(v):
    if isinstance(v, SReal):
        if isinstance(v, symx.SqrtReal):
            return False
        t = z3.simplify(v.e, som=True)
        return (z3.is_rational_value(t) or z3.is_int_value(t)) and t.as_fraction() == 0
    return v == 0


def _norm1(vals):
    nz = [v for v in vals if not _is_zero(v)]
    if not nz:
        return _np.float64(0.0)
    if len(nz) == 1:
        r = abs(nz[0])
        return r if is_sym(r) else _np.float64(r)
    if any(is_sym(v) for v in nz):
        # squares of the concrete components are taken exactly (not in doubles), like the symbolic ones
        nz = [v if is_sym(v) else SReal(symx.lift(v)) for v in nz]
    s = 0
    for v in nz:
        s = s + v * v
    return _sqrt(s)


def _inv(a):
    a = _np.asarray(a)
    if a.dtype != object:
        return _np.linalg.inv(a)
    n = a.shape[0]
    # memo per path: the same pose matrix is inverted for every object of a frame
    key = tuple(v.e.get_id() if isinstance(v, SReal) else ("c", float(v)) for v in a.flat)
    memo = symx.CTX.scratch.setdefault("inv", {}) if symx.CTX is not None else {}
    if key in memo:
        return memo[key][1].copy()
    result = _inv_compute(a, n)
    memo[key] = (list(a.flat), result)  # keep the entries alive so that ast ids stay unique
    return result.copy()


def _inv_compute(a, n):

    def lf(v):
        return v if isinstance(v, SReal) else SReal(symx.lift(v))

    m = [[lf(a[i, j]) for j in range(n)] + [lf(1 if i == j else 0) for j in range(n)] for i in range(n)]
    for col in range(n):
        piv = None
        for r in range(col, n):
            if bool(m[r][col] != 0):
                piv = r
                break
        if piv is None:
            raise _np.linalg.LinAlgError("Singular matrix")
        m[col], m[piv] = m[piv], m[col]
        p = m[col][col]
        m[col] = [v / p for v in m[col]]
        for r in range(n):
            if r != col:
                f = m[r][col]
                m[r] = [vr - f * vc for vr, vc in zip(m[r], m[col])]
    out = _np.empty((n, n), dtype=object)
    for i in range(n):
        for j in range(n):
            out[i, j] = SReal(z3.simplify(m[i][n + j].e, som=True))
    return out.view(SymArr)


class _Linalg:
    def __getattr__(self, name):
        return getattr(_np.linalg, name)

    @staticmethod
    def norm(x, ord=None, axis=None, keepdims=False):
        if not has_sym(x):
            return _np.linalg.norm(x, ord=ord, axis=axis, keepdims=keepdims)
        a = _np.asarray(x, dtype=object)
        assert ord in (None, 2)
        if axis is None or a.ndim == 1:
            return _norm1(list(a.flat))
        assert a.ndim == 2
        rows = a if axis == 1 else a.T
        out = _np.empty(len(rows), dtype=object)
        for i, r in enumerate(rows):
            out[i] = _norm1(list(r))
        return out.view(SymArr)

    inv = staticmethod(_inv)


def _is_nan(v):
    return (not is_sym(v)) and isinstance(v, (float, _np.floating)) and _math.isnan(v)


def _float_dtype_only(a, k):
    """np.array(x, dtype=<floating>) with no other argument: a float cast of symbolic contents keeps them"""
    if a or set(k) != {"dtype"}:
        return False
    try:
        return bool(_np.issubdtype(_np.dtype(k["dtype"]), _np.floating))
    except TypeError:
        return False


class SymNumpy:
    linalg = _Linalg()
    nan = _np.nan
    pi = _np.pi
    inf = _np.inf
    ndarray = _np.ndarray

    def __getattr__(self, name):
        return getattr(_np, name)

    # -- constructors
    @staticmethod
    def array(obj, *a, **k):
        if _float_dtype_only(a, k) and has_sym(obj):
            return _np.array(obj, dtype=object).view(SymArr)
        if "dtype" in k or a or not has_sym(obj):
            return _np.array(obj, *a, **k)
        return _np.array(obj, dtype=object).view(SymArr)

    @staticmethod
    def asarray(obj, *a, **k):
        if _float_dtype_only(a, k) and has_sym(obj):
            return _np.asarray(obj, dtype=object).view(SymArr)
        if "dtype" in k or a or not has_sym(obj):
            return _np.asarray(obj, *a, **k)
        return _np.asarray(obj, dtype=object).view(SymArr)

    @staticmethod
    def full(shape, fill_value, dtype=None):
        if dtype is not None:
            return _np.full(shape, fill_value, dtype=dtype)
        return _np.full(shape, fill_value).astype(object)

    @staticmethod
    def eye(n, *a, **k):
        return _np.eye(n, *a, **k).astype(object)

    # float arrays created empty and filled later may receive symbolic scalars: make them object arrays (like `full`)
    @staticmethod
    def _floating(dtype):
        if dtype is None:
            return True
        try:
            return bool(_np.issubdtype(_np.dtype(dtype), _np.floating))
        except TypeError:
            return False

    @staticmethod
    def zeros(shape, dtype=None, *a, **k):
        r = _np.zeros(shape, dtype, *a, **k)
        return r.astype(object).view(SymArr) if SymNumpy._floating(dtype) else r

    @staticmethod
    def ones(shape, dtype=None, *a, **k):
        r = _np.ones(shape, dtype, *a, **k)
        return r.astype(object).view(SymArr) if SymNumpy._floating(dtype) else r

    @staticmethod
    def empty(shape, dtype=None, *a, **k):
        if SymNumpy._floating(dtype):
            return _np.zeros(shape, dtype, *a, **k).astype(object).view(SymArr)
        return _np.empty(shape, dtype, *a, **k)

    @staticmethod
    def identity(n, dtype=None, *a, **k):
        r = _np.identity(n, dtype, *a, **k)
        return r.astype(object) if SymNumpy._floating(dtype) else r

    @staticmethod
    def vstack(tup):
        r = _np.vstack([t.view(_np.ndarray) if isinstance(t, SymArr) else t for t in tup])
        return r.view(SymArr) if r.dtype == object else r

    # -- predicates / selection
    @staticmethod
    def isnan(x):
        if isinstance(x, (list, tuple)) and has_sym(x):
            x = _np.asarray(x, dtype=object)
        if isinstance(x, _np.ndarray) and x.dtype == object:
            out = _np.empty(x.shape, dtype=bool)
            for idx, v in _np.ndenumerate(x):
                out[idx] = _is_nan(v)
            return out
        if is_sym(x):
            return False
        return _np.isnan(x)

    @staticmethod
    def where(cond, *ab):
        if not ab:  # single-argument form: indices of the true entries (forces symbolic booleans by forking)
            c = _np.asarray(cond)
            if c.dtype == object:
                c = _np.array([bool(v) for v in c.flat], dtype=bool).reshape(c.shape)
            return _np.where(c)
        a, b = ab
        if not (has_sym(cond) or has_sym(a) or has_sym(b)) and not (
            isinstance(cond, _np.ndarray) and cond.dtype == object
        ):
            return _np.where(cond, a, b)
        cond_, a_, b_ = _np.broadcast_arrays(
            _np.asarray(cond, dtype=object), _np.asarray(a, dtype=object), _np.asarray(b, dtype=object)
        )
        out = _np.empty(cond_.shape, dtype=object)
        for idx, c in _np.ndenumerate(cond_):
            out[idx] = a_[idx] if bool(c) else b_[idx]
        if out.ndim == 0:
            return out.item()
        return out

    @staticmethod
    def _nanarg(x, better):
        x = _np.asarray(x)
        if x.dtype != object or not has_sym(x):
            return None
        flat = list(x.flat)
        cand = [i for i, v in enumerate(flat) if not _is_nan(v)]
        if not cand:
            raise ValueError("All-NaN slice encountered")
        # n-way fork; numpy returns the first index among equal extrema
        for k in cand:
            allc = True
            for j in cand:
                if j == k:
                    continue
                c = better(flat[k], flat[j], j < k)
                allc = symx.L.And(allc, c)
            if bool(allc):
                return _np.intp(k)
        raise symx.Infeasible()

    @classmethod
    def nanargmin(cls, x, axis=None):
        r = cls._nanarg(x, lambda a, b, strict: (a < b) if strict else (a <= b))
        if r is None:
            return _np.nanargmin(_np.asarray(x, dtype=float), axis=axis)
        return r

    @classmethod
    def nanargmax(cls, x, axis=None):
        r = cls._nanarg(x, lambda a, b, strict: (a > b) if strict else (a >= b))
        if r is None:
            return _np.nanargmax(_np.asarray(x, dtype=float), axis=axis)
        return r

    @classmethod
    def argmin(cls, x, axis=None):
        r = cls._nanarg(x, lambda a, b, strict: (a < b) if strict else (a <= b))
        return _np.argmin(x, axis=axis) if r is None else r

    @classmethod
    def argmax(cls, x, axis=None):
        r = cls._nanarg(x, lambda a, b, strict: (a > b) if strict else (a >= b))
        return _np.argmax(x, axis=axis) if r is None else r

    @staticmethod
    def argsort(x, *a, **k):
        if not has_sym(x):
            return _np.argsort(x, *a, **k)
        vals = list(_np.asarray(x, dtype=object).flat)
        order = []
        for i, v in enumerate(vals):  # stable insertion sort, forking on each comparison
            pos = len(order)
            while pos > 0 and bool(v < vals[order[pos - 1]]):
                pos -= 1
            order.insert(pos, i)
        return _np.array(order, dtype=_np.intp)

    @staticmethod
    def mean(x, *a, **k):
        if not has_sym(x):
            return _np.mean(x, *a, **k)
        vals = list(_np.asarray(x, dtype=object).flat)
        s = 0
        for v in vals:
            s = s + v
        return s / len(vals)

    @staticmethod
    def sum(x, *a, **k):
        if not has_sym(x):
            return _np.sum(x, *a, **k)
        vals = list(_np.asarray(x, dtype=object).flat)
        s = 0
        for v in vals:
            s = s + v
        return s

    @staticmethod
    def cumsum(x, *a, **k):
        if not has_sym(x):
            return _np.cumsum(x, *a, **k)
        vals = list(_np.asarray(x, dtype=object).flat)
        out, s = [], 0
        for v in vals:
            s = s + v
            out.append(s)
        return _np.array(out, dtype=object).view(SymArr)

    @staticmethod
    def std(x, *a, **k):
        if not has_sym(x):
            return _np.std(x, *a, **k)
        vals = list(_np.asarray(x, dtype=object).flat)
        n = len(vals)
        m = 0
        for v in vals:
            m = m + v
        m = m / n
        var = 0
        for v in vals:
            var = var + (v - m) * (v - m)
        return _sqrt(var / n)

    @staticmethod
    def abs(x):
        if is_sym(x):
            return abs(x)
        return _np.abs(x)

    @staticmethod
    def sqrt(x):
        if is_sym(x):
            return _sqrt(x)
        return _np.sqrt(x)

    @staticmethod
    def hypot(a, b):
        if is_sym(a) or is_sym(b):
            return _norm1([a, b])
        return _np.hypot(a, b)

    @staticmethod
    def isclose(a, b, rtol=1e-05, atol=1e-08, **k):
        if not (has_sym(a) or has_sym(b)):
            return _np.isclose(a, b, rtol=rtol, atol=atol, **k)
        return bool(abs(a - b) <= atol + rtol * abs(b))

    @staticmethod
    def clip(x, lo, hi):
        if not (is_sym(x) or is_sym(lo) or is_sym(hi)):
            return _np.clip(x, lo, hi)
        if lo is not None and bool(x < lo):
            return lo
        if hi is not None and bool(x > hi):
            return hi
        return x


np = SymNumpy()


class SymMath:
    pi = _math.pi
    inf = _math.inf
    nan = _math.nan

    def __getattr__(self, name):
        return getattr(_math, name)

    @staticmethod
    def sqrt(x):
        return _sqrt(x)

    @staticmethod
    def hypot(*xs):
        if any(is_sym(x) for x in xs):
            return _norm1(list(xs))
        return _math.hypot(*xs)

    @staticmethod
    def isnan(x):
        if is_sym(x):
            return False
        return _math.isnan(x)

    @staticmethod
    def isinf(x):
        if is_sym(x):
            return False
        return _math.isinf(x)

    @staticmethod
    def fabs(x):
        return abs(x)


math = SymMath()


def sym_float(x=0.0):
    """module-level `float` stand-in: identity on symbolic scalars (reals are the float model)."""
    if is_sym(x):
        return x
    if isinstance(x, _np.ndarray) and x.dtype == object and x.ndim == 0:
        return sym_float(x.item())
    return float(x)


class _FloatMeta(type):
    def __instancecheck__(cls, inst):
        return isinstance(inst, float)

    def __subclasscheck__(cls, sub):
        return issubclass(sub, float)


class SymFloat(metaclass=_FloatMeta):
    """default module-level `float` in every patched perception_eval module: `float(x)` is the identity on symbolic
    scalars, `isinstance(x, float)` keeps its meaning"""

    def __new__(cls, x=0.0):
        return sym_float(x)


def sym_int(x=0, *a):
    """module-level `int` stand-in: identity on symbolic integers."""
    if isinstance(x, SInt):
        return x
    if isinstance(x, SReal):
        raise TypeError("int() of a symbolic real")
    return int(x, *a)
