"""Stand-ins for pyquaternion.Quaternion (`Rot`) and shapely.geometry.Polygon (`ConvexPolygon`).

Rot has two representations:
  * exact: an un-normalised quaternion with rational components (w, x, y, z).  Its direction fixes the
    rotation *and* the double-cover sign; the rotation matrix of q/|q| is rational, so rotating
    symbolic points stays linear.  Rational quaternions are dense in SO(3).
  * angle mode: a yaw-only rotation by a symbolic angle theta in (-pi, pi] with sign flag sigma,
    used where the code works on angles (headings, yaw errors, slerp of yaw-only poses).
"""
import math
from fractions import Fraction

import numpy as _np
import z3

from . import symx
from .symnp import SymArr
from .symx import LazyReal, SBool, SReal, is_sym, lift

PI = Fraction(math.pi)  # the double the code uses, as an exact rational


def _fr(x):
    if isinstance(x, Fraction):
        return x
    if isinstance(x, SReal):
        t = z3.simplify(x.e, som=True)
        if z3.is_rational_value(t) or z3.is_int_value(t):
            return t.as_fraction() if z3.is_rational_value(t) else Fraction(t.as_long())
        raise TypeError("symbolic entry in an exact rotation")
    if isinstance(x, (int, float, _np.floating, _np.integer)):
        return Fraction(x)
    raise TypeError(type(x))


def _snap(f):
    """floats such as 0.6 or 0.7071 handed to the stand-in are taken at face value (their exact
    binary value); nothing is snapped.  Kept as a hook to make that explicit."""
    return f


def _const(fr):
    return SReal(symx.frac_to_z3(Fraction(fr)))


def qmul(a, b):
    w1, x1, y1, z1 = a
    w2, x2, y2, z2 = b
    return (
        w1 * w2 - x1 * x2 - y1 * y2 - z1 * z2,
        w1 * x2 + x1 * w2 + y1 * z2 - z1 * y2,
        w1 * y2 - x1 * z2 + y1 * w2 + z1 * x2,
        w1 * z2 + x1 * y2 - y1 * x2 + z1 * w2,
    )


def q_to_matrix(q):
    w, x, y, z = q
    n = w * w + x * x + y * y + z * z
    return [
        [(w * w + x * x - y * y - z * z) / n, 2 * (x * y - w * z) / n, 2 * (x * z + w * y) / n],
        [2 * (x * y + w * z) / n, (w * w - x * x + y * y - z * z) / n, 2 * (y * z - w * x) / n],
        [2 * (x * z - w * y) / n, 2 * (y * z + w * x) / n, (w * w - x * x - y * y + z * z) / n],
    ]


def matrix_to_q(M):
    """pyquaternion's trace method (Quaternion._from_matrix), without the positive scale factor."""
    m = [[M[j][i] for j in range(3)] for i in range(3)]  # transpose, as pyquaternion does
    if m[2][2] < 0:
        if m[0][0] > m[1][1]:
            t = 1 + m[0][0] - m[1][1] - m[2][2]
            q = [m[1][2] - m[2][1], t, m[0][1] + m[1][0], m[2][0] + m[0][2]]
        else:
            t = 1 - m[0][0] + m[1][1] - m[2][2]
            q = [m[2][0] - m[0][2], m[0][1] + m[1][0], t, m[1][2] + m[2][1]]
    else:
        if m[0][0] < -m[1][1]:
            t = 1 - m[0][0] - m[1][1] + m[2][2]
            q = [m[0][1] - m[1][0], m[2][0] + m[0][2], m[1][2] + m[2][1], t]
        else:
            t = 1 + m[0][0] + m[1][1] + m[2][2]
            q = [t, m[1][2] - m[2][1], m[2][0] - m[0][2], m[0][1] - m[1][0]]
    return tuple(q)


class Rot:
    """Stand-in for pyquaternion.Quaternion."""

    def __init__(self, *args, **kw):
        self.q = None
        self.theta = None
        self.sign = 1
        if len(args) == 1 and isinstance(args[0], Rot):
            o = args[0]
            self.q, self.theta, self.sign = o.q, o.theta, o.sign
        elif len(args) == 4:
            self.q = tuple(_fr(a) for a in args)
        elif len(args) == 1:
            a = args[0]
            try:
                seq = list(a)
            except TypeError:
                self.q = (_fr(a), Fraction(0), Fraction(0), Fraction(0))
            else:
                if len(seq) != 4:
                    raise ValueError("Unexpected number of elements in sequence. Got: %d, Expected: 4." % len(seq))
                self.q = tuple(_fr(v) for v in seq)
        elif not args and not kw:
            self.q = (Fraction(1), Fraction(0), Fraction(0), Fraction(0))
        elif "matrix" in kw:
            M = kw["matrix"]
            M = [[M[i][j] for j in range(3)] for i in range(3)]
            ang = _angle_from_matrix(M)
            if ang is not None:
                self.theta, self.sign = ang
            else:
                Mf = [[_fr(v) for v in row] for row in M]
                _check_orthonormal(Mf)
                self.q = matrix_to_q(Mf)
        elif "theta" in kw:
            self.theta = kw["theta"]
            self.sign = kw.get("sign", 1)
        elif "array" in kw:
            self.q = tuple(_fr(v) for v in kw["array"])
        elif "axis" in kw:
            raise NotImplementedError("axis/angle construction is outside the exact rotation set")
        else:
            raise NotImplementedError(f"Rot{args}{kw}")
        if self.q is not None and all(v == 0 for v in self.q):
            raise ZeroDivisionError("zero quaternion")

    # -- helpers for harnesses
    @classmethod
    def yaw_t(cls, t, sign=1):
        """yaw rotation with tan(theta/2) = t (rational): cos = (1-t^2)/(1+t^2), sin = 2t/(1+t^2)."""
        t = Fraction(t)
        q = (Fraction(t.denominator), Fraction(0), Fraction(0), Fraction(t.numerator))
        return cls(*[sign * v for v in q])

    @property
    def exact(self):
        return self.q is not None

    # -- pyquaternion API surface used by the repository
    @property
    def rotation_matrix(self):
        out = _np.empty((3, 3), dtype=object)
        if self.q is not None:
            M = q_to_matrix(self.q)
            for i in range(3):
                for j in range(3):
                    out[i, j] = _const(M[i][j])
        else:
            c, s = _cos_sin(self.theta)
            zero, one = _const(0), _const(1)
            rows = [[c, -s, zero], [s, c, zero], [zero, zero, one]]
            for i in range(3):
                for j in range(3):
                    out[i, j] = rows[i][j]
        return out.view(SymArr)

    @property
    def transformation_matrix(self):
        out = _np.empty((4, 4), dtype=object)
        R = self.rotation_matrix
        for i in range(4):
            for j in range(4):
                out[i, j] = R[i, j] if i < 3 and j < 3 else _const(1 if i == j else 0)
        return out.view(SymArr)

    def rotate(self, v):
        R = self.rotation_matrix
        out = _np.empty(3, dtype=object)
        for i in range(3):
            out[i] = R[i, 0] * v[0] + R[i, 1] * v[1] + R[i, 2] * v[2]
        return out.view(SymArr)

    def _unit_floats(self):
        w, x, y, z = (float(v) for v in self.q)
        # scale first to avoid overflow of big rationals
        n = math.sqrt(w * w + x * x + y * y + z * z)
        return w / n, x / n, y / n, z / n

    @property
    def yaw_pitch_roll(self):
        if self.q is None:
            return self.theta, 0.0, 0.0
        w, x, y, z = self._unit_floats()
        yaw = math.atan2(2 * (w * z - x * y), 1 - 2 * (y * y + z * z))
        pitch = math.asin(max(-1.0, min(1.0, 2 * (w * y + z * x))))
        roll = math.atan2(2 * (w * x - y * z), 1 - 2 * (x * x + y * y))
        return yaw, pitch, roll

    def _component(self, i):
        if self.q is None:
            raise NotImplementedError("quaternion components of an angle-mode rotation (cos/sin of half a symbolic angle)")
        return self._unit_floats()[i]

    w = property(lambda self: self._component(0))
    x = property(lambda self: self._component(1))
    y = property(lambda self: self._component(2))
    z = property(lambda self: self._component(3))

    @property
    def angle(self):
        if self.q is None:
            a = abs(self.theta)
            return a if self.sign > 0 else -a
        w, x, y, z = self._unit_floats()
        th = 2.0 * math.atan2(math.sqrt(x * x + y * y + z * z), w)
        r = ((th + math.pi) % (2 * math.pi)) - math.pi
        return math.pi if r == -math.pi else r

    radians = angle

    @property
    def inverse(self):
        if self.q is None:
            return Rot(theta=-self.theta, sign=self.sign)
        w, x, y, z = self.q
        return Rot(w, -x, -y, -z)

    conjugate = inverse

    @property
    def unit(self):
        return self

    normalised = unit

    def __mul__(self, o):
        if isinstance(o, Rot) and self.q is not None and o.q is not None:
            return Rot(*qmul(self.q, o.q))
        if isinstance(o, Rot) and self.q is None and o.q is None:
            th = self.theta + o.theta  # two yaw rotations: angles add; the unit quaternion flips sign when the sum wraps
            sg = self.sign * o.sign
            if bool(th > PI):
                th, sg = th - 2 * PI, -sg
            elif bool(th <= -PI):
                th, sg = th + 2 * PI, -sg
            return Rot(theta=th, sign=sg)
        if isinstance(o, Rot):
            # angle mode on one side: compose the rotation matrices and map the product back to an angle
            # (the double-cover sign of the product is not tracked: rotation only)
            A, B = self.rotation_matrix, o.rotation_matrix
            M = [[A[i][0] * B[0][j] + A[i][1] * B[1][j] + A[i][2] * B[2][j] for j in range(3)] for i in range(3)]
            return Rot(matrix=M)
        return NotImplemented

    def __pow__(self, alpha):
        """q ** alpha = exp(alpha log q) for a yaw rotation in angle mode: the rotation angle of the *stored* quaternion
        (theta for sign +1, theta -+ 2 pi - the long way round - for sign -1) is scaled by alpha."""
        if self.q is not None:
            if not is_sym(alpha) and alpha == 1:
                return Rot(self)
            if not is_sym(alpha) and alpha == 0:
                return Rot()
            raise NotImplementedError("power of an exact-mode rotation")
        phi = self.theta
        if self.sign < 0:
            phi = phi - 2 * PI if bool(phi > 0) else phi + 2 * PI
        a = alpha * phi
        if bool(a > PI):
            return Rot(theta=a - 2 * PI, sign=-1)
        if bool(a <= -PI):
            return Rot(theta=a + 2 * PI, sign=-1)
        return Rot(theta=a, sign=1)

    def __neg__(self):
        if self.q is None:
            return Rot(theta=self.theta, sign=-self.sign)
        return Rot(*[-v for v in self.q])

    def __eq__(self, o):
        if not isinstance(o, Rot):
            return False
        if self.q is not None and o.q is not None:
            # pyquaternion compares components (double cover matters): equal iff same direction
            a, b = self.q, o.q
            na = sum(v * v for v in a)
            nb = sum(v * v for v in b)
            dot = sum(x * y for x, y in zip(a, b))
            return dot > 0 and dot * dot == na * nb
        if self.q is None and o.q is None:
            if self.sign != o.sign:
                return False
            r = self.theta == o.theta
            return bool(r)
        return False

    __hash__ = None

    def __deepcopy__(self, memo):
        return Rot(self)

    def __copy__(self):
        return Rot(self)

    def __repr__(self):
        return f"Rot(q={self.q})" if self.q is not None else f"Rot(theta={self.theta}, sign={self.sign})"

    @classmethod
    def slerp(cls, q0, q1, amount=0.5):
        """Shortest-arc interpolation.  Supported for yaw-only pairs (angle mode or exact yaw rotations
        taken to angle mode through atan2 of their rational matrix)."""
        if q0.q is not None and q1.q is not None:
            a, b = q0.q, q1.q
            dot = sum(x * y for x, y in zip(a, b))
            if dot * dot == sum(x * x for x in a) * sum(y * y for y in b):  # parallel quaternions: one rotation
                return Rot(*b)
        if q0.q is not None and q1.q is not None and any(v != 0 for v in (q0.q[1], q0.q[2], q1.q[1], q1.q[2])):
            # general 3-D rotations: exact only where the result is one of the end points
            a, b = q0.q, q1.q
            dot = sum(x * y for x, y in zip(a, b))
            if not symx.is_sym(amount) and amount in (0, 1):
                return Rot(*b) if amount == 1 else Rot(*[(-v if dot < 0 else v) for v in a])
            raise NotImplementedError("slerp between two distinct 3-D rotations is outside the exact rotation set")
        t0, s0 = _as_angle(q0)
        t1, s1 = _as_angle(q1)
        if symx.is_sym(amount):
            if bool(amount < 0):
                amount = 0
            elif bool(amount > 1):
                amount = 1
        else:
            amount = min(1, max(0, amount))
        d = t1 - t0
        two_pi = 2 * PI
        # shortest arc (pyquaternion flips q0 when the 4-d dot product is negative, which selects
        # the minor arc whatever the signs of the inputs)
        if bool(d > PI):
            d = d - two_pi
        elif bool(d < -PI):
            d = d + two_pi
        th = t0 + amount * d
        if bool(th > PI):
            th = th - two_pi
        elif bool(th <= -PI):
            th = th + two_pi
        return Rot(theta=th, sign=1)


def _as_angle(r):
    if r.q is None:
        return r.theta, r.sign
    w, x, y, z = r.q
    if x != 0 or y != 0:
        raise NotImplementedError("slerp of non-yaw rotations is outside the stand-in")
    yaw = r.yaw_pitch_roll[0]
    return _const(Fraction(yaw)), 1


# -- (cos, sin) registry for angle-mode rotation matrices ---------------------------------------

_TRIG = {}  # id of z3 theta term -> (theta SReal, c SReal, s SReal)


def _cos_sin(theta):
    """Symbolic cos/sin of a symbolic angle: fresh c, s with c^2+s^2=1, remembered so that a matrix
    built from them can be mapped back to the angle (plus quarter turns)."""
    if not is_sym(theta):
        f = Fraction(theta)
        raise NotImplementedError(f"rotation matrix of a concrete irrational angle {float(f)}")
    key = theta.e.get_id()
    ent = symx.CTX.scratch.setdefault("trig", {})
    if key not in ent:
        c = SReal(symx.CTX.var("cos"))
        s = SReal(symx.CTX.var("sin"))
        symx.CTX.add(c.e * c.e + s.e * s.e == 1)
        ent[key] = (theta, c, s)
    return ent[key][1], ent[key][2]


def _angle_from_matrix(M):
    """If M is (a quarter-turn multiple of) a registered angle-mode yaw matrix, return (theta', sign)."""
    ent = symx.CTX.scratch.get("trig") if symx.CTX is not None else None
    if not ent:
        return None
    if not (is_sym(M[0][0]) and is_sym(M[1][0])):
        return None
    m00 = z3.simplify(lift(M[0][0]), som=True)
    m10 = z3.simplify(lift(M[1][0]), som=True)
    if z3.is_rational_value(m00) and z3.is_rational_value(m10):
        return None

    def same(a, b):
        return z3.is_true(z3.simplify(a == b, som=True)) or a.eq(b)

    half_pi = PI / 2
    for theta, c, s in ent.values():
        for k, (e00, e10) in enumerate([(c.e, s.e), (-s.e, c.e), (-c.e, -s.e), (s.e, -c.e)]):
            if same(m00, z3.simplify(e00, som=True)) and same(m10, z3.simplify(e10, som=True)):
                th = theta + k * half_pi
                two_pi = 2 * PI
                if bool(th > PI):
                    th = th - two_pi
                return th, 1
    raise NotImplementedError("matrix with symbolic entries is not a registered yaw rotation")


def _check_orthonormal(M):
    for i in range(3):
        for j in range(3):
            d = sum(M[i][k] * M[j][k] for k in range(3))
            if d != (1 if i == j else 0):
                raise ValueError("Matrix must be orthogonal, i.e. its transpose should be its inverse")


# ----------------------------------------------------------------------------------------------
# shapely stand-in


class _Ext:
    def __init__(self, coords):
        self.coords = coords


def _same_pt(a, b):
    for u, v in zip(a, b):
        r = u == v
        if not bool(r):
            return False
    return True


class ConvexPolygon:
    """Model of shapely Polygon for convex rings given as a coordinate list (closed or not)."""

    def __init__(self, coords=None):
        pts = [tuple(p) for p in (coords if coords is not None else [])]
        if len(pts) > 1 and _same_pt(pts[0], pts[-1]):
            ring = pts
        else:
            ring = pts + pts[:1]
        self.exterior = _Ext(ring)

    def _open(self):
        return self.exterior.coords[:-1]

    @property
    def is_empty(self):
        return len(self.exterior.coords) == 0

    def __bool__(self):
        return not self.is_empty

    @property
    def area(self):
        pts = self._open()

        def thunk():
            return abs(_shoelace2(pts)) / 2

        return LazyReal(thunk)

    def intersection(self, other):
        return _LazyIntersection(self, other)

    def __deepcopy__(self, memo):
        return self


def _shoelace2(pts):
    s = 0
    n = len(pts)
    for i in range(n):
        x1, y1 = pts[i][0], pts[i][1]
        x2, y2 = pts[(i + 1) % n][0], pts[(i + 1) % n][1]
        s = s + (x1 * y2 - x2 * y1)
    return s if is_sym(s) else _const(Fraction(s))


class _LazyIntersection:
    def __init__(self, a, b):
        self.a, self.b = a, b

    @property
    def area(self):
        def thunk():
            poly = clip(self.a._open(), self.b._open())
            if len(poly) < 3:
                return 0.0
            return abs(_shoelace2(poly)) / 2

        return LazyReal(thunk)


def _num(e):
    """Fraction if the value is concrete after simplification else None."""
    if isinstance(e, SReal):
        t = z3.simplify(e.e, som=True)
        if z3.is_rational_value(t):
            return t.as_fraction()
        if z3.is_int_value(t):
            return Fraction(t.as_long())
        return None
    return Fraction(e)


def _cvec(p, q):
    dx, dy = _num(q[0] - p[0]), _num(q[1] - p[1])
    if dx is not None and dy is not None:
        return (dx, dy)
    # axis-parallel edges of symbolic length still have a concrete direction
    if dy == 0 and dx is None:
        return (Fraction(1) if bool(q[0] - p[0] > 0) else Fraction(-1), Fraction(0))
    if dx == 0 and dy is None:
        return (Fraction(0), Fraction(1) if bool(q[1] - p[1] > 0) else Fraction(-1))
    return None


def clip(subject, clipper):
    """Sutherland-Hodgman (convex clipper); forks on side tests; tracks concrete edge directions so
    that cut points stay linear in the symbolic translation/size."""
    if bool(_shoelace2(clipper) < 0):
        clipper = list(reversed(clipper))
    out = [(p[0], p[1]) for p in subject]
    dirs = [_cvec(out[j - 1], out[j]) for j in range(len(out))]  # direction of the edge ending at j
    n = len(clipper)
    for i in range(n):
        a, b = clipper[i], clipper[(i + 1) % n]
        ax, ay, bx, by = a[0], a[1], b[0], b[1]
        v = _cvec(a, b)
        inp, idirs, out, dirs = out, dirs, [], []
        if not inp:
            break

        def side(p):
            if v is not None:
                return v[0] * (p[1] - ay) - v[1] * (p[0] - ax)
            return (bx - ax) * (p[1] - ay) - (by - ay) * (p[0] - ax)

        for j in range(len(inp)):
            cur, prev, u = inp[j], inp[j - 1], idirs[j]
            sc, sp = side(cur), side(prev)
            cin, pin = bool(sc >= 0), bool(sp >= 0)
            if cin != pin:
                if u is not None and v is not None:
                    cr = v[0] * u[1] - v[1] * u[0]
                    tau = -sp / cr
                    P = (prev[0] + tau * u[0], prev[1] + tau * u[1])
                else:
                    t = sp / (sp - sc)
                    P = (prev[0] + t * (cur[0] - prev[0]), prev[1] + t * (cur[1] - prev[1]))
                out.append(P)
                dirs.append(u if pin else v)
            if cin:
                out.append(cur)
                dirs.append(u)
    return out
