import sys
sys.argv=['t2.py','0','p345','0']
import symx, time, z3
orig=symx.Ctx.check
def chk(self,*a):
    t=time.time(); r=orig(self,*a); dt=time.time()-t
    if dt>1:
        s=str(a[0]) if a else ""
        print("slow check",round(dt,1),r, len(s), s[:400].replace("\n"," "), flush=True)
    return r
symx.Ctx.check=chk
orig_explore=symx.explore
def ex(fn, timeout_ms=10000, max_paths=100000):
    return orig_explore(fn, timeout_ms=3000, max_paths=12)
symx.explore=ex
exec(open('t2.py').read())
