"""Lazy wrappers for the repository's matching classes (evaluation timing only).

`DynamicObjectWithPerceptionResult.__init__` eagerly builds all four matchings; most checks never look at
most of them.  The wrapper defers the real `_calculate_matching_score` until `.value` is observed, so the
forks (corner sorting, polygon clipping) only happen when a check depends on the score.  The concrete mode
(replay / witness validation) always uses the unwrapped classes.
"""
import perception_eval.evaluation.matching.object_matching as OM
import perception_eval.evaluation.result.object_result as OR


def _lazy(cls):
    class LazyMatching(cls):
        def __init__(self, estimated_object, ground_truth_object, transforms=None):
            if ground_truth_object is not None:
                assert isinstance(estimated_object, type(ground_truth_object))
            self.__dict__["_args"] = (estimated_object, ground_truth_object, transforms)
            if cls is OM.PlaneDistanceMatching:
                nan = float("nan")
                self.ground_truth_nn_plane = ((nan, nan, nan), (nan, nan, nan))
                self.estimated_nn_plane = ((nan, nan, nan), (nan, nan, nan))

        @property
        def value(self):
            d = self.__dict__
            if "_value" not in d:
                e, g, t = d["_args"]
                d["_value"] = self._calculate_matching_score(estimated_object=e, ground_truth_object=g, transforms=t)
            return d["_value"]

        @value.setter
        def value(self, v):
            self.__dict__["_value"] = v

    LazyMatching.__name__ = "Lazy" + cls.__name__
    return LazyMatching


def lazy_extras():
    return [
        (OR, "CenterDistanceMatching", _lazy(OM.CenterDistanceMatching)),
        (OR, "PlaneDistanceMatching", _lazy(OM.PlaneDistanceMatching)),
        (OR, "IOU2dMatching", _lazy(OM.IOU2dMatching)),
        (OR, "IOU3dMatching", _lazy(OM.IOU3dMatching)),
    ]
