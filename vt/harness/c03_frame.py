"""C03 - per-frame TP/FP/FN/TN accounting conserves objects."""
from .. import symx
from ..runner import Obligation, Out
from ..symx import L, assume, choose, real
from . import scene as S
from .scene import CAR, FP, PED, UNK

TARGETS = [CAR, PED]
LANES = [0.0, 3.5, -3.5, 7.0]


def _crit(kind):
    n = len(TARGETS)
    if kind == "xy":
        return ("xy", [real(f"crit_max_x_{i}", 0, 200) for i in range(n)], [real(f"crit_max_y_{i}", 5, 200) for i in range(n)])
    if kind == "xy_uuid":  # the frame's critical filter also names the critical ground truths
        return ("xy_uuid", [real(f"crit_max_x_{i}", 0, 200) for i in range(n)], [real(f"crit_max_y_{i}", 5, 200) for i in range(n)],
                ["g0"])
    if kind == "dist_fixed":  # concrete ring (map-frame scenes: a symbolic ring makes both renderings non-linear)
        return ("dist", [60.0, 25.0], [2.5, 1.0])
    return ("dist", [real(f"crit_max_d_{i}", 0, 200) for i in range(n)], [real(f"crit_min_d_{i}", 0, 50) for i in range(n)])


def accounting(frame, ego_q, n, m, policy, crit_kind, e_labels, g_labels, sym_thr=True, pf_reversed=False,
               task="detection"):
    pose = S.Pose(frame, ego_q)
    crit = _crit(crit_kind)
    if not sym_thr:  # keep the larger scenes linear: concrete pass/fail thresholds
        thr = [2.0, 1.0]
    else:
        thr = [real(f"pass_fail_thr_{i}", 0, 10) for i in range(len(TARGETS))]  # 0 included: nothing beats a zero threshold
    # one estimate and one ground truth: separate lanes (2-D geometry); larger scenes: everything on one lane, so that
    # every distance is |dx| (linear) and objects may coincide
    lane_e = (lambda i: LANES[i]) if n + m <= 2 else (lambda i: 0.0)
    lane_g = (lambda j: LANES[j] + 0.5) if n + m <= 2 else (lambda j: 0.0)
    ests = [S.SObj(f"e{i}", pose, choose(f"e{i}_label", e_labels), real(f"e{i}_ego_x", -150, 150), lane_e(i),
                   conf=[0.9, 0.8, 0.7][i]) for i in range(n)]
    gts = [S.SObj(f"g{j}", pose, choose(f"g{j}_label", g_labels), real(f"g{j}_ego_x", -150, 150), lane_g(j),
                  is_gt=True) for j in range(m)]
    # pf_reversed: the pass/fail config lists the labels in the other order than the critical filter (same thresholds per label)
    fr, all_results = S.run_frame(pose, ests, gts, TARGETS, policy, crit, thr, pf_reversed=pf_reversed, task=task,
                                  metrics={} if task == "fp_validation" else None)
    p = fr.pass_fail_result
    eo = {id(e.obj): e for e in ests}
    go = {id(g.obj): g for g in gts}
    tp, fp = p.tp_object_results, p.fp_object_results
    parts = {}

    # (a) every surviving result is exactly one of TP / FP (by estimate identity: matched-TN results are re-wrapped)
    surv = [id(r.estimated_object) for r in fr.object_results]
    tp_e = [id(r.estimated_object) for r in tp]
    fp_e = [id(r.estimated_object) for r in fp]
    parts["results_are_tp_xor_fp"] = sorted(surv) == sorted(tp_e + fp_e) and len(set(tp_e + fp_e)) == len(tp_e + fp_e)
    parts["results_equal_tp_plus_fp"] = len(fr.object_results) == len(tp) + len(fp)

    # (d) nothing outside the critical region is counted, everything inside is
    crit_e = {k: S.critical(e, TARGETS, crit) for k, e in eo.items()}
    crit_g = {k: S.critical(g, TARGETS, crit) for k, g in go.items()}
    counted_g = [id(x) for x in fr.frame_ground_truth.objects]
    parts["ground_truth_kept_iff_critical"] = L.And(*[L.Iff(k in counted_g, c) for k, c in crit_g.items()])
    pair_of = {id(r.estimated_object): r.ground_truth_object for r in all_results}
    keep_res = {}
    for k, c in crit_e.items():
        if k not in pair_of:  # false-positive validation: the matcher dropped this unpaired estimate (C01)
            keep_res[k] = False
            continue
        g = pair_of.get(k)
        if g is None and crit[0] == "xy_uuid":
            keep_res[k] = False  # documented: with a uuid list only results of the listed ground truths are kept
            continue
        keep_res[k] = L.And(c, crit_g[id(g)]) if g is not None else c
    parts["result_kept_iff_both_members_critical"] = L.And(*[L.Iff(k in surv, c) for k, c in keep_res.items()])

    # (b) every critical ground truth is accounted for exactly once
    tp_g = [id(r.ground_truth_object) for r in tp]
    fpm_g = [id(r.ground_truth_object) for r in fp if r.ground_truth_object is not None]
    fn_g = [id(x) for x in p.fn_objects]
    tn_g = [id(x) for x in p.tn_objects]
    acc = []
    for k, g in go.items():
        if g.label == FP:
            cnt = tn_g.count(k) + fpm_g.count(k)
            also = tp_g.count(k) + fn_g.count(k) == 0
        else:
            cnt = tp_g.count(k) + fn_g.count(k)
            also = tn_g.count(k) == 0
        acc.append(L.And(L.Iff(crit_g[k], cnt == 1), L.Implies(L.Not(crit_g[k]), cnt == 0), also))
    parts["each_critical_ground_truth_once"] = L.And(*acc)
    ordinary = [k for k in counted_g if go[k].label != FP]
    parts["ordinary_ground_truth_equals_tp_plus_fn"] = len(ordinary) == len(tp) + len(p.fn_objects)
    parts["num_success_fail"] = p.get_num_success() == len(tp) + len(p.tn_objects) and \
        p.get_num_fail() == len(fp) + len(p.fn_objects)

    # (c) a TP has a label-compatible ground truth whose pass/fail score beats the ground truth label's threshold
    conds = []
    for r in fr.object_results:
        e = eo[id(r.estimated_object)]
        g = go.get(id(r.ground_truth_object)) if r.ground_truth_object is not None else None
        is_tp = id(r.estimated_object) in tp_e
        if g is None or g.label == FP:
            conds.append(not is_tp)
            continue
        t = thr[TARGETS.index(g.label)]
        # equal-size, equal-orientation boxes: plane distance = centre distance
        ok = L.And(S.compat(policy, e.label, g.label), S.dist2(e, g) < t * t)
        conds.append(L.Iff(is_tp, ok))
    parts["tp_iff_compatible_and_within_threshold"] = L.And(*conds)
    # detection score computed from the same critical objects: one-to-one matching => AP within [0, 1]
    aps = [a.ap for mp in fr.metrics_score.maps for a in mp.aps if not (not symx.is_sym(a.ap) and a.ap == float("inf"))]
    parts["ap_within_unit_interval"] = L.And(*[L.And(a >= -1e-12, a <= 1 + 1e-9) for a in aps])
    return Out(parts=parts, obs={"tp": sorted(eo[k].name for k in tp_e), "fp": sorted(eo[k].name for k in fp_e),
                                 "fn": sorted(go[k].name for k in fn_g), "tn": sorted(go[k].name for k in tn_g),
                                 "gt": sorted(go[k].name for k in counted_g)})


def obligations(pid, tier):
    quick = tier == "quick"
    cases = []
    frames = [("base_link", "id"), ("map", "yaw_3_4_5")] + ([] if quick else [("map", "yaw_neg"), ("map", "yaw90")])
    sizes = [(1, 1), (2, 1), (1, 2), (2, 2)] if quick else [(1, 1), (2, 1), (1, 2), (2, 2), (3, 2), (2, 3)]
    for f, q in frames:
        for (n, m) in sizes:
            if n + m >= 5 and q not in ("id", "yaw90"):
                continue  # five-object scenes: ego frame and the axis-aligned map pose only (run time)
            for policy in (["default", "allow_any"] if n + m <= 3 else ["default"]):
                for ck in ("xy", "dist"):
                    if ck == "dist" and (n + m > 3 or (quick and (f == "map" or n + m > 2))):
                        continue
                    small = n + m >= 4
                    qq = "yaw90" if (small and q == "yaw_3_4_5") else q
                    sym_thr = (n + m <= 2) or (n + m == 3 and f == "base_link") or (not quick and n + m <= 3)
                    cases.append(dict(frame=f, ego_q=qq, n=n, m=m, policy=policy, crit_kind=ck, sym_thr=sym_thr,
                                      e_labels=[CAR] if small else [CAR, PED], g_labels=[CAR, FP] if small else [CAR, PED, FP]))
    # map-frame scenes under a distance ring centred on the ego (concrete ring bounds)
    cases += [dict(frame="map", ego_q="yaw_3_4_5", n=n, m=m, policy="default", crit_kind="dist_fixed", sym_thr=False,
                   e_labels=[CAR, PED], g_labels=[CAR, PED, FP]) for (n, m) in ((1, 1), (2, 1))]
    cases += [dict(c, pf_reversed=True) for c in cases if c["n"] + c["m"] <= 2 and c["frame"] == "base_link"
              and c["crit_kind"] == "xy"]
    cases += [dict(c, crit_kind="xy_uuid") for c in cases if c["crit_kind"] == "xy" and c["policy"] == "default"
              and c["frame"] == "base_link" and not c.get("pf_reversed") and c["n"] + c["m"] <= 3]
    # false-positive validation task (unpaired estimates are dropped by the matcher; no detection metrics)
    cases += [dict(c, task="fp_validation") for c in cases if c["crit_kind"] == "xy" and c["policy"] == "default"
              and not c.get("pf_reversed") and (c["n"], c["m"]) in ((1, 1), (2, 1), (1, 2))]
    return [Obligation("accounting", accounting, cases=cases, extras=S.frame_extras,
                       desc="PerceptionFrameResult.evaluate_frame / PassFailResult: conservation, critical region, TP rule")]


def meta(pid):
    return {
        "functions": ["evaluation.result.perception_frame_result.PerceptionFrameResult.__init__/evaluate_frame",
                      "evaluation.result.perception_pass_fail_result.PassFailResult.evaluate/get_num_success/get_num_fail",
                      "evaluation.matching.objects_filter.filter_object_results/filter_objects/_is_target_object/"
                      "get_positive_objects/get_negative_objects/divide_objects/divide_objects_to_num",
                      "evaluation.result.object_result.get_object_results/DynamicObjectWithPerceptionResult.get_status/"
                      "is_result_correct", "evaluation.matching.object_matching.PlaneDistanceMatching",
                      "evaluation.result.perception_frame_config.CriticalObjectFilterConfig/PerceptionPassFailConfig",
                      "evaluation.metrics.metrics.MetricsScore.evaluate_detection", "common.transform.TransformDict/HomogeneousMatrix"],
        "files": ["evaluation/result/perception_frame_result.py", "evaluation/result/perception_pass_fail_result.py",
                  "evaluation/matching/objects_filter.py", "evaluation/result/object_result.py",
                  "evaluation/matching/object_matching.py", "evaluation/result/perception_frame_config.py"],
        "bounds": {"quick": "<= 2 estimates x <= 2 ground truths on fixed lanes with symbolic ego-relative x, labels "
                            "{car,pedestrian} / {car,pedestrian,false_positive} (2x2: {car}/{car,false_positive}); ego frame "
                            "and map frame (ego yaw atan(4/3), symbolic translation); critical filter x/y box or distance "
                            "ring with symbolic per-label bounds, or x/y box plus a critical uuid list; symbolic pass/fail thresholds; "
                            "policies default/allow_any; detection and false-positive-validation task",
                   "thorough": "four ego poses; 3x2 / 2x3 scenes in the ego frame and under the axis-aligned map pose"},
        "outside": ["objects of different size or orientation (plane distance then differs from centre distance; C06 covers "
                    "the score itself)", "more objects than the bound", "sequences of frames (C13)"],
        "stand_ins": ["numpy proxy", "pyquaternion -> Rot (exact)", "shapely -> ConvexPolygon", "lazy matching wrappers",
                      "stub evaluator config carrying evaluation_task and label_converter for the two frame configs"],
        "assumptions": ["boxes share size and ego-relative orientation", "floats modelled as exact reals"],
    }
