import z3, time
I,h,A1,A2,H1,H2=z3.Reals('I h A1 A2 H1 H2')
pre=z3.And(A1>0,A2>0,H1>0,H2>0,I>=0,I<=A1,I<=A2,h>=0,h<=H1,h<=H2)
U2=A1+A2-I; U3=A1*H1+A2*H2-I*h
# iou3d <= iou2d  <=>  I*h*U2 <= I*U3 (U2,U3>0)
for name,claim in [("U2>0",U2>0),("U3>0",U3>0),("3d<=bev",I*h*U2<=I*U3),("3d<=1",I*h<=U3),("bev<=1",I<=U2)]:
    s=z3.Solver(); s.set("timeout",60000); s.add(pre, z3.Not(claim)); t=time.time(); print(name, s.check(), round(time.time()-t,2))
