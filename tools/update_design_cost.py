#!/usr/bin/env python3
"""Rewrite DESIGN.md section 5 from the committed (quick-tier) evidence files and the recorded thorough-tier runs."""
import glob, json, os, re
HERE = os.path.dirname(os.path.dirname(os.path.abspath(__file__)))
THOROUGH = json.load(open(os.path.join(HERE, "tools", "thorough_runs.json")))
rows = []
for f in sorted(glob.glob(os.path.join(HERE, "evidence", "C*.json"))):
    e = json.load(open(f)); c = e["coverage"]
    assert e["tier"] == "quick", f
    t = THOROUGH.get(e["property_id"], {})
    rows.append((e["property_id"], c["obligations"], c["states"], c["queries"], round(e["wall_s"]),
                 t.get("paths", "-"), t.get("wall_s", "-")))
fmt = lambda v: f"{v:,}".replace(",", " ") if isinstance(v, int) else str(v)
lines = ["## 5. Cost (16 cores, this sandbox)", "",
         "Quick tier: from the committed evidence files (one full run on the unchanged tree). Thorough tier: one end-to-end run of",
         "every thorough command on the unchanged tree with nothing else running (`vp run … ./bin/run_all thorough`); all exit 0.", "",
         "| check | obligations | quick: paths | quick: solver queries | quick: wall s | thorough: paths | thorough: wall s |",
         "|---|---|---|---|---|---|---|"]
lines += ["| " + " | ".join(fmt(v) for v in r) + " |" for r in rows]
lines += ["", f"Quick tier in total: {sum(r[4] for r in rows)} s wall; thorough tier in total: "
          f"{sum(r[6] for r in rows if isinstance(r[6], int))} s wall (each thorough bound was sized by trial so that no check needs more than ~30 minutes; "
          "what had to be left out is stated as *outside* in the harness `meta()`).", "",
          "No `unknown` on a final query and no witness disagreement on the current tree. Under heavy CPU contention the wall",
          "times grow roughly in proportion; the quick tier's wall-clock limit is 900 s per check (`VERIF_MAX_WALL_S`), beyond which a",
          "run ends *inconclusive*, never as success.", "",
          "---------------------------------------------------------------------------------------------------", "", ""]
p = os.path.join(HERE, "DESIGN.md")
s = open(p).read()
i = s.index("## 5. Cost"); j = s.index("## 6. What every")
s = s[:i] + "\n".join(lines) + s[j:]
open(p, "w").write(s)
print("section 5 rewritten")
